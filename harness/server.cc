// Socket-level monitors against a real Http::Endpoint / Tcp::Listener:
//   c14s  size limit exact (around every configured limit, any read segmentation)
//   c14t  header / body read time-outs
//   c08   connection lifecycle balance (callbacks automaton, accept4/close ownership, descriptor census)
//   c05   emitted responses well-formed with exact framing (independent RFC 7230 reader), size limit on responses
//   seg   server-level confirmation for C01/C04 (digest echo under forced read segmentation, keep-alive sequences)
//   c03s  server-level hostile input with a liveness probe on a second connection
//   c10l  routing on the wire: 405 + Allow, 404 / not-found handler exactly once
#define LV_DEFINE_INTERPOSERS 1
#include "live.h"
#include "msggen.h"

#include <pistache/endpoint.h>
#include <pistache/http.h>
#include <pistache/listener.h>
#include <pistache/peer.h>
#include <pistache/router.h>
#include <pistache/transport.h>

using namespace Pistache;
using namespace vf;

static Opts g_opts;
static Distinct g_distinct;
static long g_evals = 0;
static std::map<std::string, long> g_counts;
static long g_samples_left = 6;
static void count(const std::string& k, long n = 1) { g_counts[k] += n; }
static std::mutex g_m;
// live bytes held through operator new (C08 heap census, server_heap.h): exact, from the allocator's own block sizes; the sanitizer
// flavours own operator new, the census runs in the plain flavour only
static std::atomic<long> g_live_bytes{0};
#if !defined(__SANITIZE_ADDRESS__) && !defined(__SANITIZE_THREAD__)
#include <malloc.h>
static inline void* census_alloc(size_t n) { void* p = malloc(n ? n : 1); if (!p) throw std::bad_alloc(); g_live_bytes.fetch_add((long)malloc_usable_size(p), std::memory_order_relaxed); return p; }
static inline void census_free(void* p) noexcept { if (!p) return; g_live_bytes.fetch_sub((long)malloc_usable_size(p), std::memory_order_relaxed); free(p); }
void* operator new(size_t n) { return census_alloc(n); }
void* operator new[](size_t n) { return census_alloc(n); }
void operator delete(void* p) noexcept { census_free(p); }
void operator delete[](void* p) noexcept { census_free(p); }
void operator delete(void* p, size_t) noexcept { census_free(p); }
void operator delete[](void* p, size_t) noexcept { census_free(p); }
#endif
static bool wait_for(std::function<bool()> f, double sec) { double end = lv::now() + sec; while (lv::now() < end) { if (f()) return true; lv::msleep(2); } return f(); }
static int peer_port(const std::shared_ptr<Tcp::Peer>& peer) { return (int)ntohs((uint16_t)peer->address().port()); }

// =====================================================================================
// C14 sizes
static std::set<std::string> g_seen_ids;
struct IdHandler : public Http::Handler {
    HTTP_PROTOTYPE(IdHandler)
    void onRequest(const Http::Request& req, Http::ResponseWriter response) override {
        { std::lock_guard<std::mutex> g(g_m); g_seen_ids.insert(req.resource()); }
        if (req.resource().rfind("/hold", 0) == 0) lv::msleep(800);   // keeps this worker away from its event loop for more than one scan period
        if (req.resource() == "/blob") { response.send(Http::Code::Ok, std::string(8u << 20, 'z')); return; }   // an answer that does not fit the socket of a client that never reads
        response.send(Http::Code::Ok, "seen " + req.resource() + " body " + std::to_string(req.body().size()));
    }
};
// builds a request of exactly `total` bytes
static std::string sized_request(const std::string& id, size_t total, int kind, bool& ok) {
    ok = true;
    std::string head = "POST /" + id + " HTTP/1.1\r\nHost: x\r\n";
    if (kind == 0) {  // no body: pad with a header
        std::string base = head + "X-Pad: \r\n\r\n";
        if (total < base.size()) { ok = false; return ""; }
        return head + "X-Pad: " + std::string(total - base.size(), 'p') + "\r\n\r\n";
    }
    if (kind == 1) {  // Content-Length
        for (size_t body = 0; body <= total; body++) {
            std::string h = head + "Content-Length: " + std::to_string(body) + "\r\n\r\n";
            if (h.size() + body == total) return h + std::string(body, 'b');
            if (h.size() > total) break;
        }
        // digit-count boundary: pad with a header instead
        for (size_t pad = 0; pad < 12; pad++) for (size_t body = 0; body <= total; body++) {
            std::string h = head + "X-P: " + std::string(pad, 'p') + "\r\nContent-Length: " + std::to_string(body) + "\r\n\r\n";
            if (h.size() + body == total) return h + std::string(body, 'b');
            if (h.size() > total) break;
        }
        ok = false; return "";
    }
    // chunked: two chunks + terminator
    std::string h = head + "Transfer-Encoding: chunked\r\n\r\n";
    for (size_t pad = 0; pad < 10; pad++) for (size_t a = 1; a < total; a++) {
        char hx[32]; snprintf(hx, sizeof hx, "%zx", a);
        std::string hh = pad ? head + "X-P: " + std::string(pad, 'p') + "\r\nTransfer-Encoding: chunked\r\n\r\n" : h;
        std::string msg = hh + hx + "\r\n" + std::string(a, 'c') + "\r\n" + "3\r\nend\r\n0\r\n\r\n";
        if (msg.size() == total) return msg;
        if (msg.size() > total) break;
    }
    ok = false; return "";
}
static void run_c14s(long cases) {
    lv::ip().enabled = true; lv::ip().capAccepted = true;
    Rng r(g_opts.seed * 3001 + (uint64_t)g_opts.shard);
    if (g_opts.shard == 0) {
        // "no limit" style settings: a small request is within any of them
        for (size_t L : {std::numeric_limits<size_t>::max(), (size_t(1) << 63) + 4096, size_t(1) << 62, size_t(1) << 32}) {
            Http::Endpoint ep(Address(Ipv4::loopback(), Port(0)));
            ep.init(Http::Endpoint::options().threads(1).flags(Tcp::Options::ReuseAddr).maxRequestSize(L));
            ep.setHandler(Http::make_handler<IdHandler>());
            ep.serveThreaded();
            lv::Conn c; std::string buf; bool ok; std::string req = sized_request("huge", 120, 1, ok);
            std::string wt = Json().str("phase", "c14s").str("limit", std::to_string(L)).num("total", 120).done();
            set_case(-1, wt);
            if (c.open_to(ep.getPort())) { c.send_all(req); lv::HttpMsg m = lv::read_response(c, buf, 0, (int)(5000 * lv::load_factor())); g_evals++;
                if (!m.complete || m.status != 200) violation("c14:size:refused-within-limit:extreme-limit", "limit " + std::to_string(L) + ": a 120-byte request got status " + std::to_string(m.status) + " " + m.error, wt); }
            { std::lock_guard<std::mutex> g(g_m); g_seen_ids.clear(); }
            g_distinct.add("extreme|" + std::to_string(L));
            count("extreme_limit_cases");
            ep.shutdown();
        }
    }
    static const size_t LIMITS[] = {100, 512, 4096, 8192, 300};
    long idx = g_opts.shard * 1000000L;
    for (size_t li = 0; li < 5; li++) {
        if ((long)li % g_opts.nshards != g_opts.shard % 5 && g_opts.nshards >= 5) { }
        size_t L = LIMITS[li];
        for (int workers : {1, 4}) {
            if (((long)li * 2 + (workers == 4)) % g_opts.nshards != g_opts.shard) continue;
            Http::Endpoint ep(Address(Ipv4::loopback(), Port(0)));
            // every way the API offers to configure the limit: the option or its deprecated alias, given before or after the handler
            int how = (int)((li * 2 + (workers == 4)) % 4);
            auto opts = Http::Endpoint::options().threads(workers).flags(Tcp::Options::ReuseAddr);
#pragma GCC diagnostic push
#pragma GCC diagnostic ignored "-Wdeprecated-declarations"
            if (how % 2 == 0) opts.maxRequestSize(L); else opts.maxPayload(L);
#pragma GCC diagnostic pop
            if (how < 2) { ep.init(opts); ep.setHandler(Http::make_handler<IdHandler>()); } else { ep.setHandler(Http::make_handler<IdHandler>()); ep.init(opts); }
            count(std::string("limit_configured_via_") + (how % 2 ? "maxPayload" : "maxRequestSize") + (how < 2 ? "_before_handler" : "_after_handler"));
            ep.serveThreaded();
            int port = ep.getPort();
            for (long n = 0; n < cases; n++) {
                size_t T; int w = (int)(n % 6);
                T = w == 0 ? L - 1 : w == 1 ? L : w == 2 ? L + 1 : w == 3 ? 2 * L : w == 4 ? L - (size_t)r.range(2, 20) : L + (size_t)r.range(2, 40);
                int kind = r.range(0, 2);
                std::string id = "r" + std::to_string(idx);
                bool ok; std::string req = sized_request(id, T, kind, ok);
                if (!ok) { count("unbuildable_size"); idx++; continue; }
                // server-side read segmentation
                int seg = r.range(0, 3);
                { lv::Interpose& I = lv::ip(); std::lock_guard<std::mutex> g(I.m);
                  I.defaultRecvCaps.clear(); I.defaultRecvRepeat = true;
                  if (seg == 1) I.defaultRecvCaps = {1};
                  else if (seg == 2) { for (int k = 0; k < 8; k++) I.defaultRecvCaps.push_back((size_t)r.range(1, 64)); }
                  else if (seg == 3) { I.defaultRecvCaps = {L, 1, 4096}; I.defaultRecvRepeat = false; } }
                std::string wt = Json().num("i", idx).str("phase", "c14s").num("limit", (long long)L).num("total", (long long)T).num("kind", kind).num("workers", workers).num("segmentation", seg).done();
                set_case(idx, wt);
                lv::Conn c; if (!c.open_to(port)) { count("harness_connect_failed"); idx++; continue; }
                c.send_all(req);
                std::string buf; double lf = lv::load_factor();
                lv::HttpMsg m = lv::read_response(c, buf, 0, (int)(5000 * lf));
                g_evals++;
                bool seen; { std::lock_guard<std::mutex> g(g_m); seen = g_seen_ids.count("/" + id) > 0; g_seen_ids.erase("/" + id); }
                std::string key, rel = T <= L ? (T == L ? "at-limit" : "below-limit") : (T == L + 1 ? "limit-plus-1" : "above-limit");
                std::string kn = kind == 0 ? "nobody" : kind == 1 ? "cl" : "chunked";
                if (!m.complete) { if (m.error.rfind("timeout", 0) == 0 || m.error.rfind("closed", 0) == 0) key = "c14:size:no-answer:" + rel + ":" + kn; else key = "c14:size:malformed-answer:" + rel; }
                else if (T <= L) { if (m.status == 413) key = "c14:size:refused-within-limit:" + rel + ":" + kn; else if (!seen || m.status != 200) key = "c14:size:not-delivered-within-limit:" + rel + ":" + kn; }
                else { if (seen) key = "c14:size:delivered-above-limit:" + rel + ":" + kn; else if (m.status != 413) key = "c14:size:not-413-above-limit:" + rel + ":" + kn; }
                if (!key.empty()) violation(key, "limit " + std::to_string(L) + ", request of " + std::to_string(T) + " bytes (" + kn + "), segmentation " + std::to_string(seg) + ": status " + std::to_string(m.status) + " " + m.error + (seen ? ", handler ran" : ", handler did not run"), wt);
                g_distinct.add(std::to_string(L) + "|" + rel + "|" + kn + "|" + std::to_string(seg) + "|" + std::to_string(workers));
                count("size_cases");
                if (g_samples_left > 0 && (idx % 97) == 5) { g_samples_left--; sample(wt); }
                idx++;
            }
            ep.shutdown();
        }
    }
}

// =====================================================================================
// C14 time-outs
struct TCase { int kind; double stallAt; };
static void run_c14t(long cases) {
    Rng r(g_opts.seed * 3011 + (uint64_t)g_opts.shard);
    struct Setting { double h, b; };
    std::vector<Setting> settings = {{1, 2}, {2, 1}, {1, 1}, {2, 3}, {2, 2}, {3, 2}, {4, 1}, {1, 4}, {4, 4}, {2.8, 3.8}, {3.8, 2.8}};   // (the last two: not a whole number of seconds)   // the last two: far enough apart for "which of the two time-outs was applied" to be told beyond the slack
    long idx = g_opts.shard * 100000L;
    for (long rep = 0; rep < cases; rep++)
    for (size_t si = 0; si < settings.size(); si++) {
        if ((long)(si + (size_t)rep * settings.size()) % g_opts.nshards != g_opts.shard) continue;
        double H = settings[si].h, B = settings[si].b;
        int workers = (rep + (long)si) % 2 ? 4 : 1;
        Http::Endpoint ep(Address(Ipv4::loopback(), Port(0)));
        auto topts = Http::Endpoint::options().threads(workers).flags(Tcp::Options::ReuseAddr).headerTimeout(std::chrono::milliseconds((long)(H * 1000))).bodyTimeout(std::chrono::milliseconds((long)(B * 1000)));
        // both legal orders of init() and setHandler(): the time-outs have to reach every worker either way
        bool handlerFirst = ((rep + (long)si) / 2) % 2 == 1;
        if (handlerFirst) { ep.setHandler(Http::make_handler<IdHandler>()); ep.init(topts); count("timeout_servers_with_the_handler_set_before_init"); }
        else { ep.init(topts); ep.setHandler(Http::make_handler<IdHandler>()); }
        ep.serveThreaded();
        int port = ep.getPort();
        std::vector<std::thread> th;
        std::mutex rm; std::vector<std::pair<std::string, std::string>> results;   // (key or "", witness)
        double minT = std::min(H, B);
        for (int kind = 0; kind < 13; kind++) {
            long myidx = idx++;
            th.emplace_back([&, kind, myidx] {
                std::string kn; std::string key;
                lv::Conn c; if (!c.open_to(port)) return;
                double t0 = lv::now();
                std::string head = "POST /t" + std::to_string(myidx) + " HTTP/1.1\r\nHost: x\r\nContent-Length: 10\r\n\r\n";
                std::string body = "0123456789";
                std::string buf; lv::HttpMsg m;
                lv::Conn* cur = &c;
                auto expect408 = [&](double deadlineFromStart, const std::string& where) {
                    lv::Conn& c = *cur;
                    // must be answered 408 and closed by the time-out + scan period + slack; never judged inside the scan band
                    double slack = 1.5 * lv::load_factor();
                    int ms = (int)((deadlineFromStart + 0.5 + slack - (lv::now() - t0)) * 1000);
                    m = lv::read_response(c, buf, 0, std::max(ms, 100));
                    double at = lv::now() - t0;
                    if (!m.complete) key = "c14:timeout:no-408:" + where;
                    else if (m.status != 408) key = "c14:timeout:status-" + std::to_string(m.status) + ":" + where;
                    else if (at < deadlineFromStart - 0.05) key = "c14:timeout:408-too-early:" + where;
                    else {  // closed?
                        std::string more; bool eof = false; double end = lv::now() + 1.0 + slack;
                        while (!eof && lv::now() < end) c.read_some(more, 100, 1 << 20, &eof);
                        if (!eof) key = "c14:timeout:not-closed-after-408:" + where;
                    }
                };
                auto expect200 = [&](const std::string& where) {
                    m = lv::read_response(c, buf, 0, (int)(3000 * lv::load_factor()));
                    if (m.complete && m.status == 408) key = "c14:timeout:408-on-timely-request:" + where;
                    else if (!m.complete || m.status != 200) key = "c14:timeout:timely-request-not-served:" + where;
                };
                switch (kind) {
                case 0: kn = "complete-at-once"; c.send_all(head + body); expect200(kn); break;
                case 1: kn = "connect-only"; expect408(minT, kn); break;
                case 2: kn = "stall-in-request-line"; c.send_all("POST /t"); expect408(minT, kn); break;
                case 3: kn = "stall-in-headers"; c.send_all(head.substr(0, head.size() - 6)); expect408(minT, kn); break;
                case 4: kn = "stall-in-body"; c.send_all(head + body.substr(0, 4)); expect408(B, kn);
                        break;
                case 5: kn = "slow-but-within"; lv::msleep((int)(minT * 300)); c.send_all(head); lv::msleep((int)(minT * 200)); c.send_all(body); expect200(kn); break;
                case 6: { kn = "second-request-after-idle-gap"; c.send_all(head + body); expect200(kn); if (!key.empty()) break; buf.clear(); lv::msleep((int)(minT * 600)); t0 = lv::now(); c.send_all(head + body); expect200(kn); break; }
                case 8: { kn = "second-request-straddles-the-connections-age";   // starts before the connection is a time-out old, ends after, but is itself quick
                        c.send_all(head + body); expect200(kn); if (!key.empty()) break; buf.clear();
                        // The idle gap s stays below both time-outs, the request itself (head at s, body at s + d) takes d < B, and s + d passes
                        // the point "B after the END OF THE PREVIOUS request" by more than one scan period, so that a clock left running from
                        // there is bound to be seen by a scan.  With time-outs of 1 s the margins for that do not exist: shorter variant there.
                        if (minT >= 2) { double s = 0.7 * minT, d = B + 0.7 - s; lv::msleep((int)(s * 1000)); t0 = lv::now(); c.send_all(head); lv::msleep((int)(d * 1000)); c.send_all(body); expect200(kn); }
                        else { lv::msleep((int)(minT * 700)); t0 = lv::now(); c.send_all(head); lv::msleep((int)(minT * 600)); c.send_all(body); expect200(kn); }
                        break; }
                case 9: { kn = "body-trickled-past-the-body-timeout";   // every gap is short, the whole request takes too long: the time-out counts from the start of the request
                        c.send_all(head);
                        std::atomic<bool> stopTrickle{false};
                        std::thread trickle([&] { for (int j = 0; j < 9 && !stopTrickle.load(); j++) { for (int q = 0; q < 40 && !stopTrickle.load(); q++) lv::msleep((int)(B * 10)); if (stopTrickle.load() || !c.send_all(body.substr((size_t)j, 1))) break; } });
                        expect408(B, kn);
                        stopTrickle = true; trickle.join();
                        break; }
                case 10: { kn = "slow-head-then-stalled-body";   // the head takes most of its time, then the body stalls: the body time-out still counts from the start of the request
                        c.send_all(head.substr(0, 20)); lv::msleep((int)(minT * 800)); c.send_all(head.substr(20) + body.substr(0, 3));
                        expect408(B, kn); break; }
                case 11: { kn = "completed-shortly-before-the-time-out";   // the whole request 0.3 s before the smaller time-out expires: timely, whatever the unit of the setting
                        double want = minT - 0.3; lv::msleep((int)(want * 1000));
                        if (lv::now() - t0 > want + 0.08) { std::lock_guard<std::mutex> g(rm); results.push_back({"", ""}); return; }   // the sleep overshot (loaded machine): not a case
                        c.send_all(head + body); expect200(kn); break; }
                case 12: { kn = "silent-after-a-peer-with-blocked-output-timed-out-and-left";
                        // a history on one descriptor number: a connection asks for an answer it never reads (its output blocks), stays idle past the
                        // time-out - whatever the idle scan does about it is queued behind the blocked output - and resets.  The connections opened
                        // next (one of them gets that descriptor number at the server) go silent: they are timed out like any other connection.
                        c.close_now();
                        { lv::Conn a; if (!a.open_to(port, 2048)) break; a.send_all("GET /blob HTTP/1.1\r\nHost: x\r\n\r\n"); lv::msleep((int)((minT + 1.3) * 1000)); a.rst_close(); }
                        lv::msleep(60);
                        // (enough of them to take every descriptor number that has become free in the meantime, the other cases of this server run beside this one)
                        std::vector<std::unique_ptr<lv::Conn>> xs; for (int q = 0; q < 16; q++) { xs.emplace_back(new lv::Conn()); if (!xs.back()->open_to(port)) xs.pop_back(); }
                        t0 = lv::now();
                        for (auto& x : xs) { if (!key.empty()) break; cur = x.get(); buf.clear(); expect408(minT, kn); }
                        break; }
                default: kn = "body-after-header-timeout-within-body-timeout";
                        if (B > H) { c.send_all(head); lv::msleep((int)((H + 0.3) * 1000)); if (lv::now() - t0 < B - 0.4) { c.send_all(body); expect200(kn); } }
                        else { c.send_all(head + body); expect200(kn); }
                        break;
                }
                std::string wt = Json().num("i", myidx).str("phase", "c14t").num("header_timeout_s", H).num("body_timeout_s", B).str("case", kn).num("workers", workers).num("status", m.status).str("error", m.error).num("elapsed_ms", (long long)((lv::now() - t0) * 1000)).done();
                std::lock_guard<std::mutex> g(rm); results.push_back({key, wt});
            });
        }
        for (auto& t : th) t.join();
        // a complete request arrives while the only worker is away for longer than a scan period (but far less than the time-outs): when the
        // worker returns, the scan tick and the request are reported together; the request has to be read and answered, not timed out
        if (workers == 1 && minT >= 2) {
            long myidx = idx++;
            lv::Conn sl, f; std::string key, bufS, bufF;
            if (sl.open_to(port) && f.open_to(port)) {
                double t0 = lv::now();
                sl.send_all("GET /hold" + std::to_string(myidx) + " HTTP/1.1\r\nHost: x\r\n\r\n"); lv::msleep(150);
                f.send_all("POST /t" + std::to_string(myidx) + " HTTP/1.1\r\nHost: x\r\nContent-Length: 10\r\n\r\n0123456789");
                lv::HttpMsg mf = lv::read_response(f, bufF, 0, (int)((minT + 2.0) * 1000 * lv::load_factor()));
                if (mf.complete && mf.status == 408) key = "c14:timeout:408-on-timely-request:arrived-while-the-worker-was-busy-for-a-scan-period";
                else if (!mf.complete || mf.status != 200) key = "c14:timeout:timely-request-not-served:arrived-while-the-worker-was-busy-for-a-scan-period";
                lv::read_response(sl, bufS, 0, 3000);
                std::string wt = Json().num("i", myidx).str("phase", "c14t").num("header_timeout_s", H).num("body_timeout_s", B).str("case", "arrived-while-the-worker-was-busy-for-a-scan-period").num("workers", workers).num("status", mf.status).num("elapsed_ms", (long long)((lv::now() - t0) * 1000)).done();
                results.push_back({key, wt}); count("busy_worker_cases");
            }
        }
        for (auto& kv : results) {
            if (kv.second.empty()) { count("timeout_cases_not_judged_sleep_overshot"); continue; }
            g_evals++;
            if (!kv.first.empty()) violation(kv.first, "header time-out " + std::to_string(H) + " s, body time-out " + std::to_string(B) + " s: " + kv.first.substr(12), kv.second);
            count("timeout_cases");
            if (g_samples_left > 0) { g_samples_left--; sample(kv.second); }
        }
        for (int kind = 0; kind < 12; kind++) g_distinct.add(std::to_string(H) + "|" + std::to_string(B) + "|" + std::to_string(kind) + "|" + std::to_string(workers));
        ep.shutdown();
    }
}

// =====================================================================================
// C08 lifecycle
struct PeerLife { std::string events; int conn = 0, disc = 0; bool inputAfterDisc = false; std::weak_ptr<Tcp::Peer> obj; };
static std::map<size_t, PeerLife> g_life;
struct LifeTcpHandler : public Tcp::Handler {
    PROTOTYPE_OF(Tcp::Handler, LifeTcpHandler)
    void onConnection(const std::shared_ptr<Tcp::Peer>& peer) override { std::lock_guard<std::mutex> g(g_m); PeerLife& l = g_life[peer->getID()]; l.conn++; l.events += 'C'; }
    void onDisconnection(const std::shared_ptr<Tcp::Peer>& peer) override { std::lock_guard<std::mutex> g(g_m); PeerLife& l = g_life[peer->getID()]; l.disc++; l.events += 'D'; l.obj = peer; }
    void onInput(const char* buffer, size_t len, const std::shared_ptr<Tcp::Peer>& peer) override {
        bool big = false;
        { std::lock_guard<std::mutex> g(g_m); PeerLife& l = g_life[peer->getID()]; if (l.disc) l.inputAfterDisc = true; if (l.events.size() < 64) l.events += 'I'; }
        std::string in(buffer, len);
        if (in.find("BIG") != std::string::npos) big = true;
        if (in.find("SLOW") != std::string::npos) lv::msleep(150);   // keeps this worker away from its event loop for a while
        // answer complete lines only (a large reply when asked, so that a reset can hit a pending write); a partial
        // command gets no reply, like a partial HTTP request
        if (in.find('\n') == std::string::npos) return;
        std::string reply = big ? std::string(4 << 20, 'z') : "ok:" + in.substr(0, 16);
        transport()->asyncWrite(peer->fd(), RawBuffer(reply, reply.size()));
    }
};
struct SpyTransport : public Tcp::Transport {
    explicit SpyTransport(const std::shared_ptr<Tcp::Handler>& h) : Tcp::Transport(h) { std::lock_guard<std::mutex> g(g_m); all().push_back(this); }
    // (Listener::bind() makes a prototype with the factory, clones it per worker and drops it: the registry holds live transports only)
    ~SpyTransport() override { std::lock_guard<std::mutex> g(g_m); auto& v = all(); v.erase(std::remove(v.begin(), v.end(), this), v.end()); }
    static std::vector<SpyTransport*>& all() { static std::vector<SpyTransport*> v; return v; }
    size_t peerCount() const { return peers.size(); }
    std::shared_ptr<Aio::Handler> clone() const override { return std::make_shared<SpyTransport>(handlerCopy()); }
    std::shared_ptr<Tcp::Handler> handlerCopy() const { return std::make_shared<LifeTcpHandler>(); }
};
// a 3 MiB file in the scratch directory of the run (made once per process)
static const std::string& census_file() {
    static std::string path = [] { std::string p = "c08-file-" + std::to_string(getpid()) + ".bin"; FILE* f = fopen(p.c_str(), "wb"); if (f) { std::string blk(1 << 16, 'f'); for (int k = 0; k < 48; k++) fwrite(blk.data(), 1, blk.size(), f); fclose(f); } return p; }();
    return path;
}
struct LifeHttpHandler : public Http::Handler {
    HTTP_PROTOTYPE(LifeHttpHandler)
    static std::vector<std::unique_ptr<Http::ResponseWriter>>& parked() { static std::vector<std::unique_ptr<Http::ResponseWriter>> v; return v; }
    static double& lastParked() { static double t = 0; return t; }
    void onRequest(const Http::Request& req, Http::ResponseWriter response) override {
        auto peer = response.peer();
        { std::lock_guard<std::mutex> g(g_m); PeerLife& l = g_life[peer->getID()]; if (l.disc) l.inputAfterDisc = true; if (l.events.size() < 64) l.events += 'R'; }
        // response time-outs of several lengths, also exactly on and around the second, armed and answered before they fire
        if (req.resource().rfind("/armed", 0) == 0) { int ms = atoi(req.query().get("ms").value_or("300").c_str()); response.timeoutAfter(std::chrono::milliseconds(ms)); }
        if (req.resource() == "/slow") lv::msleep(atoi(req.query().get("ms").value_or("150").c_str()));
        if (req.resource() == "/stream") {
            // a streamed response written from inside the handler: the peer may reset while it is being flushed
            auto st = response.stream(Http::Code::Ok);
            std::string chunk(20000, 's');
            for (int k = 0; k < 6; k++) { st.write(chunk.data(), (std::streamsize)chunk.size()); try { st << Http::flush; } catch (const std::exception&) { break; } lv::msleep(15); }
            try { st << Http::ends; } catch (const std::exception&) { }
            return;
        }
        if (req.resource() == "/longpoll") {
            // long-poll style: the handler arms a response time-out and keeps the writer without answering
            // (the writer is parked first and armed where it will stay: arming it and moving it afterwards aborts the process when
            // the moved-from writer is destroyed - Timeout's move leaves `armed` set and its continuation keeps the old address;
            // that is a defect of the handler-facing API outside what C08 states, see DESIGN.md section 10)
            Http::ResponseWriter* w = new Http::ResponseWriter(std::move(response));
            w->timeoutAfter(std::chrono::milliseconds(250));
            std::lock_guard<std::mutex> g(g_m); parked().emplace_back(w); lastParked() = lv::now();
            return;
        }
        if (req.resource() == "/big") { response.send(Http::Code::Ok, std::string(4 << 20, 'z')); return; }
        if (req.resource() == "/file0") { static std::string empty = [] { std::string p = "c08-empty-" + std::to_string(getpid()) + ".bin"; FILE* f = fopen(p.c_str(), "wb"); if (f) fclose(f); return p; }(); Http::serveFile(response, empty); return; }   // a file of zero bytes: nothing to send, the descriptor has to go all the same
        if (req.resource() == "/file") { Http::serveFile(response, census_file()); return; }   // a response that holds a descriptor of its own until it has been sent
        response.send(Http::Code::Ok, "ok");
    }
    void onDisconnection(const std::shared_ptr<Tcp::Peer>& peer) override { std::lock_guard<std::mutex> g(g_m); PeerLife& l = g_life[peer->getID()]; l.disc++; l.events += 'D'; l.obj = peer; }
};
static const char* BEHAVIOUR[] = {"connect-close", "partial-then-close", "exchange-then-close", "half-close-then-read", "reset", "reset-with-pending-response", "silence-until-idle-timeout", "armed-timeout-answered-before", "keepalive-3-requests-then-close", "exchange-then-silence-until-idle-timeout", "slow-request-keeps-worker-busy", "partial-then-immediate-close-while-worker-busy", "send-and-half-close-at-once-while-worker-busy", "request-a-streamed-response-then-reset", "long-poll-then-leave-before-the-response-time-out", "unread-response-then-silence-past-the-idle-time-out-then-close", "silence-past-the-idle-time-out-then-orderly-close", "slow-request-keeps-worker-busy-past-the-idle-time-out", "reset-with-pending-file-response", "file-response-read-to-the-end", "head-completed-past-the-time-out-asks-for-a-streamed-response", "long-poll-until-the-response-time-out-fires", "slow-request-holds-the-worker-for-600-ms", "joins-a-burst-while-the-worker-is-held", "unread-response-then-silence-past-the-idle-time-out-then-reads-everything", "asks-for-an-empty-file"};
static std::atomic<int> g_foreign_bytes{0};
static std::atomic<int> g_own_408{0};
static std::string g_foreign_detail;
static void client_behaviour(int port, int b, bool http, Rng& r) {
    if (b == 23) lv::msleep(100 + r.range(0, 150));   // the burst: connects while the worker is held by behaviour 22
    lv::Conn c; if (!c.open_to(port, b == 5 || b == 15 || b == 18 || b == 24 ? 2048 : 0)) return;
    std::string buf;
    auto req = [&](const std::string& path) { return http ? "GET " + path + " HTTP/1.1\r\nHost: x\r\nConnection: keep-alive\r\n\r\n" : "hello " + path + "\n"; };
    // the reply must be this connection's own: state left behind by an earlier connection (e.g. its unsent response) must not surface here
    bool timedOutByServer = false;   // after a 408 the server closes the connection: nothing that follows on it is judged
    auto readReply = [&]() {
        std::string got;
        if (timedOutByServer) return;
        if (http) { lv::HttpMsg m = lv::read_response(c, buf, 0, (int)(3000 * lv::load_factor())); got = m.complete ? std::to_string(m.status) + ":" + m.body.substr(0, 16) : "incomplete:" + m.error + ":" + buf.substr(0, 24); buf.clear(); if (got == "200:ok") return;
            // a 408 is this connection's own answer too: a worker kept busy by a slow handler for longer than the (1 s) time-out finds the
            // request only after the idle scan has run; whether that is timely is C14's business, not a lifecycle matter
            if (got == "408:") { g_own_408++; timedOutByServer = true; return; } }
        else { double end = lv::now() + 3.0 * lv::load_factor(); while (got.size() < 9 && lv::now() < end) c.read_some(got, 100); if (got.rfind("ok:hello /", 0) == 0) return; }
        if (g_foreign_bytes++ == 0) { std::lock_guard<std::mutex> g(g_m); g_foreign_detail = got.substr(0, 60); }
    };
    switch (b) {
    case 0: break;
    case 1: c.send_all(http ? "GET /par" : "hel"); lv::msleep(r.range(0, 20)); break;
    case 2: c.send_all(req("/x")); readReply(); break;
    case 3: c.send_all(req("/x")); c.half_close(); { bool eof = false; double end = lv::now() + 3; std::string t; while (!eof && lv::now() < end) c.read_some(t, 100, 1 << 20, &eof); } break;
    case 4: c.send_all(req("/x")); lv::msleep(r.range(0, 5)); c.rst_close(); return;
    case 5: c.send_all(http ? req("/big") : "BIG\n"); lv::msleep(r.range(5, 50)); c.rst_close(); return;
    case 6: { bool eof = false; double end = lv::now() + 4.0; std::string t; while (!eof && lv::now() < end) c.read_some(t, 100, 1 << 20, &eof); } break;
    case 7: { static const int MS[] = {300, 999, 1000, 1001, 2000, 60000, 1}; c.send_all(req("/armed?ms=" + std::to_string(r.pick(MS)))); readReply(); break; }
    case 18: c.send_all(req("/file")); lv::msleep(r.range(5, 50)); c.rst_close(); return;
    case 19: c.send_all(req("/file")); { lv::HttpMsg m = lv::read_response(c, buf, 0, (int)(8000 * lv::load_factor())); if (!timedOutByServer && (!m.complete || m.status != 200 || m.body.size() != (size_t)(48 << 16))) { if (g_foreign_bytes++ == 0) { std::lock_guard<std::mutex> g(g_m); g_foreign_detail = "file response: status " + std::to_string(m.status) + ", " + std::to_string(m.body.size()) + " body bytes"; } } } break;
    case 20: {   // the head of a request for a streamed response is completed only after the idle time-out has passed (in a stall round: while the
                 // worker is away, so that the scan that finds the connection idle and the rest of the head are handled in one poll result).
                 // Whatever it is answered - 408, the stream, both, nothing - the connection's life cycle has to stay balanced.
        c.send_all(http ? "GET /stream HTTP/1.1\r\nHost: x\r\n" : "hel"); lv::msleep(1250); c.send_all(http ? "\r\n" : "lo /x\n");
        { bool eof = false; double end = lv::now() + 3.0; std::string t; while (!eof && lv::now() < end) c.read_some(t, 100, 1 << 22, &eof); } break; }
    case 15: {   // a response it never reads, then silence past the idle time-out and a good while longer, then it leaves
        c.send_all(req("/big")); lv::msleep(3200); break; }
    case 24: {   // like 15, but in the end it reads: the response it let wait, and whatever the idle scan queued behind it in the meantime, is written
                 // out now, each write completing with more writes still pending behind it
        c.send_all(req("/big")); lv::msleep(3200); { bool eof = false; double end = lv::now() + 6.0 * lv::load_factor(); std::string t; while (!eof && lv::now() < end) c.read_some(t, 100, 1 << 22, &eof); } break; }
    case 16: lv::msleep(1250); break;   // silent past the idle time-out, then an orderly close - which may reach a busy worker together with the idle scan that has just found it
    case 17: lv::msleep(r.range(0, 300)); c.send_all(req("/slow?ms=1500")); lv::read_response(c, buf, 0, 6000); break;   // keeps the worker away from its loop for longer than the idle time-out
    case 10: c.send_all(http ? req("/slow") : "SLOW /x\n"); { std::string t; if (http) { lv::read_response(c, buf, 0, 3000); } else c.read_some(t, 1500); } break;
    case 11: lv::msleep(r.range(20, 90)); c.send_all(http ? "POST /x HTTP/1.1\r\nHost: x\r\nContent-Length: 50\r\n\r\nabc" : "hel"); break;   // bytes and FIN reach the busy worker together
    case 12: lv::msleep(r.range(20, 90)); c.send_all(http ? "GET /par" : "hel"); c.half_close(); lv::msleep(300); break;
    case 13: c.send_all(http ? req("/stream") : "hello /x\n"); lv::msleep(r.range(5, 40)); c.rst_close(); return;
    case 14: c.send_all(http ? req("/longpoll") : "hello /x\n"); lv::msleep(r.range(10, 80)); if (r.chance(1, 2)) { c.rst_close(); return; } break;
    case 21: {   // the handler parks the writer with a 250 ms response time-out and never answers: the timer fires with the client still there, the
                 // framework's onTimeout answers 408 on a writer of its own; the client reads that answer, waits a little and leaves
        c.send_all(req("/longpoll")); lv::HttpMsg m = lv::read_response(c, buf, 0, (int)(4000 * lv::load_factor()));
        if (!m.complete || m.status != 408) { if (g_foreign_bytes++ == 0) { std::lock_guard<std::mutex> g(g_m); g_foreign_detail = "long poll past its response time-out: " + (m.complete ? "status " + std::to_string(m.status) : "no answer (" + m.error + ")"); } }
        else g_own_408++;
        lv::msleep(r.range(0, 60)); break; }
    case 25: c.send_all(req("/file0")); { lv::HttpMsg m = lv::read_response(c, buf, 0, (int)(3000 * lv::load_factor())); if (!timedOutByServer && (!m.complete || m.status != 200 || !m.body.empty())) { if (g_foreign_bytes++ == 0) { std::lock_guard<std::mutex> g(g_m); g_foreign_detail = "empty file response: " + (m.complete ? "status " + std::to_string(m.status) + ", " + std::to_string(m.body.size()) + " body bytes" : "incomplete (" + m.error + ")"); } } } break;
    case 22: c.send_all(req("/slow?ms=600")); readReply(); break;
    case 23: { int w = r.range(0, 3); if (w == 0) { lv::msleep(400); break; } if (w == 1) { c.send_all(req("/x")); lv::msleep(r.range(0, 300)); c.rst_close(); return; } c.send_all(req("/x")); readReply(); } break;   // connects while the only worker is inside a handler: connect-and-leave / reset / exchange
    case 9: c.send_all(req("/x")); readReply(); { bool eof = false; double end = lv::now() + 4.0; std::string t; while (!eof && lv::now() < end) c.read_some(t, 100, 1 << 20, &eof); } break;
    default: for (int k = 0; k < 3; k++) { c.send_all(req("/k" + std::to_string(k))); readReply(); } break;
    }
    c.close_now();
}
static void run_c08(long cases) {
    lv::ip().enabled = false; lv::ip().trackOwnership = true;
    Rng r(g_opts.seed * 3023 + (uint64_t)g_opts.shard);
    for (long round = 0; round < cases; round++) {
        long idx = g_opts.shard * 100000L + round;
        bool http = round % 2 == 1;
        bool longTimeouts = http && (round % 4 == 3);   // with the idle time-out out of the way a connection the server forgot about stays forgotten
        int workers = r.chance(1, 2) ? 1 : 3;
        // stall rounds: one client keeps the single worker busy for 1.5 s, longer than the 1 s idle time-out; the others only do things
        // whose outcome does not depend on being served in time (a worker that is away that long answers late comers 408 and closes)
        bool stallRound = http && !longTimeouts && r.chance(1, (int)g_opts.num("stall-one-in", 3));
        if (stallRound) workers = 1;
        // burst rounds: one request holds the only worker for 600 ms while 70-130 clients connect; the worker finds them all in its queue of new
        // peers when it comes back (more than any batch size one might think of), and each of them is a connection like any other
        bool burstRound = http && longTimeouts && r.chance(1, 2);
        if (burstRound) workers = 1;
        { std::lock_guard<std::mutex> g(g_m); g_life.clear(); SpyTransport::all().clear(); }
        std::unique_ptr<Tcp::Listener> listener; std::unique_ptr<Http::Endpoint> ep; int port;
        if (http) {
            ep.reset(new Http::Endpoint(Address(Ipv4::loopback(), Port(0))));
            ep->init(Http::Endpoint::options().threads(workers).flags(Tcp::Options::ReuseAddr).headerTimeout(std::chrono::seconds(longTimeouts ? 60 : 1)).bodyTimeout(std::chrono::seconds(longTimeouts ? 60 : 1)).maxResponseSize(16u << 20));
            ep->setHandler(Http::make_handler<LifeHttpHandler>());
            ep->serveThreaded(); port = ep->getPort();
        } else {
            listener.reset(new Tcp::Listener());
            listener->init((size_t)workers, Flags<Tcp::Options>(Tcp::Options::ReuseAddr));
            auto h = std::make_shared<LifeTcpHandler>();
            listener->setHandler(h);
            listener->setTransportFactory([h] { return std::make_shared<SpyTransport>(h); });
            listener->bind(Address(Ipv4::loopback(), Port(0)));
            port = listener->getPort();
            listener->runThreaded();
        }
        lv::msleep(30);
        if (http) (void)census_file();
        int baselineFds = lv::fd_count();
        // descriptors left over from the previous round's endpoint (shut down with a connection still open) are not this round's
        long accepts0, closes0; { lv::Interpose& I = lv::ip(); std::lock_guard<std::mutex> g(I.m); I.owned.clear(); accepts0 = I.accepts; closes0 = I.closesOwned; }
        long badf0 = lv::ip().closeBadf.load();
        int nclients = r.range(1, 24);
        if (burstRound) nclients = r.range(70, 130);
        if (stallRound) nclients = std::max(nclients, 5);   // (the stalling client, two that stay silent past the time-out and then leave, and others)
        set_case(idx, Json().num("i", idx).str("phase", "c08").str("server", http ? "http-endpoint" : "tcp-listener").num("workers", workers).str("behaviours", stallRound ? "(stall round in progress)" : "(round in progress)").done());
        std::vector<int> behaviours;
        std::vector<std::thread> th;
        if (stallRound) nclients = std::max(nclients, 3);
        for (int k = 0; k < nclients; k++) {
            int b = r.range(0, 16);
            if (http && r.chance(1, 8)) b = r.chance(1, 2) ? 18 : r.chance(1, 2) ? 19 : 25;
            if (http && r.chance(1, 10)) b = 21;
            if (stallRound) { static const int QUIET[] = {0, 1, 4, 16, 16, 20, 12, 11, 20}; b = k == 0 ? 17 : k <= 2 ? 16 : r.pick(QUIET); }
            if (!stallRound && k == 0 && r.chance(1, 2)) b = 10;
            if (burstRound) b = k == 0 ? 22 : 23;
            if (http && !longTimeouts && !stallRound && !burstRound && r.chance(1, 10)) b = 24;
            if ((b == 15 || b == 16 || b == 20 || b == 24) && (!http || longTimeouts)) b = 5;
            if (g_opts.num("behaviour", -1) >= 0) b = (int)g_opts.num("behaviour", -1);
            if (!http && (b == 6 || b == 7 || b == 9 || b == 21)) b = r.range(0, 5);
            if (longTimeouts && (b == 6 || b == 9)) b = r.range(10, 12);   // idle time-out / response timers exist on the HTTP endpoint only
            behaviours.push_back(b);
            uint64_t cs = r.next();
            th.emplace_back([=] { Rng cr(cs); client_behaviour(port, b, http, cr); });
        }
        for (auto& t : th) t.join();
        std::string bt; for (int b : behaviours) bt += std::to_string(b);
        std::string wt = Json().num("i", idx).str("phase", "c08").str("server", http ? "http-endpoint" : "tcp-listener").num("workers", workers).str("behaviours", bt).done();
        set_case(idx, wt);
        // quiescence: every accepted descriptor released, descriptor count back at the idle baseline (bounded wait)
        double lf = lv::load_factor();
        bool quiet = wait_for([&] { lv::Interpose& I = lv::ip(); std::lock_guard<std::mutex> g(I.m); return I.owned.empty(); }, 6.0 * lf);
        bool fdsBack = wait_for([&] { return lv::fd_count() <= baselineFds; }, 3.0 * lf);
        g_evals++;
        std::string key;
        long accepts, closes; size_t stillOwned; { lv::Interpose& I = lv::ip(); std::lock_guard<std::mutex> g(I.m); accepts = I.accepts - accepts0; closes = I.closesOwned - closes0; stillOwned = I.owned.size(); }
        std::string srv = http ? "http" : "tcp";
        if (g_foreign_bytes.load() > 0) { key = "c08:reply-is-not-the-connections-own:" + srv; std::lock_guard<std::mutex> g(g_m); wt = Json().num("i", idx).str("phase", "c08").str("server", srv).str("behaviours", bt).str("received", g_foreign_detail).done(); g_foreign_bytes = 0; }
        else if (lv::ip().closeBadf.load() > badf0) { key = "c08:descriptor-closed-twice:" + srv; wt = Json().num("i", idx).str("phase", "c08").str("server", srv).str("behaviours", bt).num("close_calls_answered_EBADF", lv::ip().closeBadf.load() - badf0).num("descriptor", lv::ip().closeBadfFd.load()).done(); }
        else if (!quiet) key = "c08:socket-not-released:" + srv;
        else if (!fdsBack) { key = "c08:descriptors-above-baseline:" + srv; wt = Json().num("i", idx).str("phase", "c08").str("server", srv).str("behaviours", bt).num("baseline", baselineFds).num("now", lv::fd_count()).str("open", lv::fd_listing().substr(0, 1500)).done(); }
        {
            std::lock_guard<std::mutex> g(g_m);
            for (auto& kv : g_life) {
                const PeerLife& l = kv.second;
                if (!key.empty()) break;
                if (!http && l.conn != 1) key = "c08:told-of-connection-" + std::to_string(l.conn) + "-times:" + srv;
                else if (l.inputAfterDisc) key = "c08:input-after-disconnection:" + srv;
                else if (l.disc == 0) key = "c08:never-told-of-disconnection:" + srv;
                else if (l.disc > 1) key = "c08:told-of-disconnection-twice:" + srv;
                if (!key.empty()) wt = Json().num("i", idx).str("phase", "c08").str("server", srv).str("behaviours", bt).str("peer_events", l.events).done();
            }
            if (key.empty() && !http) for (auto* t : SpyTransport::all()) if (t->peerCount() != 0) key = "c08:peer-table-not-empty:tcp";
            // per-connection state is released: the Peer object of a connection the handler was told is gone must not be kept alive
            // by the framework (parked response writers hold it weakly)
            if (key.empty()) { int alive = 0; for (int w = 0; w < 40; w++) { alive = 0; for (auto& kv : g_life) if (kv.second.disc > 0 && !kv.second.obj.expired()) alive++; if (!alive) break; g_m.unlock(); lv::msleep(25); g_m.lock(); }
                if (alive) { key = "c08:peer-object-kept-after-disconnection:" + srv; wt = Json().num("i", idx).str("phase", "c08").str("server", srv).str("behaviours", bt).num("peer_objects_alive", alive).done(); } }
            if (key.empty() && (long)g_life.size() > accepts) key = "c08:more-peers-than-accepts:" + srv;
        }
        (void)closes; (void)stillOwned;
        // new connections must still be served, each with its own reply (descriptor numbers are reused now: per-connection
        // state that was not released would surface here)
        for (int pr = 0; pr < 3 && key.empty(); pr++) { lv::Conn c; std::string buf; if (!c.open_to(port)) continue; c.send_all(http ? "GET /x HTTP/1.1\r\nHost: x\r\n\r\n" : "hello /again\n");
            std::string got; if (http) { auto m = lv::read_response(c, buf, 0, (int)(3000 * lf)); got = m.complete ? std::to_string(m.status) + ":" + m.body.substr(0, 16) : "incomplete:" + buf.substr(0, 24); if (got != "200:ok") { key = "c08:reply-is-not-the-connections-own:" + srv; wt = Json().num("i", idx).str("phase", "c08").str("server", srv).str("behaviours", bt).str("received", got).done(); } }
            else { double end = lv::now() + 3 * lf; while (got.size() < 9 && lv::now() < end) c.read_some(got, 100); if (got.rfind("ok:hello /", 0) != 0) { key = "c08:reply-is-not-the-connections-own:" + srv; wt = Json().num("i", idx).str("phase", "c08").str("server", srv).str("behaviours", bt).str("received", got.substr(0, 40)).done(); } } }
        if (key.empty()) { lv::Conn c; std::string buf; if (!c.open_to(port)) key = "c08:cannot-connect-afterwards:" + srv; else { c.send_all(http ? "GET /after HTTP/1.1\r\nHost: x\r\n\r\n" : "after\n"); if (http) { auto m = lv::read_response(c, buf, 0, (int)(3000 * lf)); if (!m.complete || m.status != 200) key = "c08:not-served-afterwards:http"; } else { std::string t; double end = lv::now() + 3 * lf; while (t.empty() && lv::now() < end) c.read_some(t, 100); if (t.empty()) key = "c08:not-served-afterwards:tcp"; } } }
        if (!key.empty()) violation(key, key.substr(4) + " after clients [" + bt + "]", wt);
        std::set<int> bs(behaviours.begin(), behaviours.end()); std::string bsig; for (int b : bs) bsig += std::to_string(b);
        g_distinct.add(srv + "|" + std::to_string(workers) + "|" + bsig);
        count("rounds"); count("connections", nclients);
        for (int b : behaviours) count(std::string("behaviour_") + BEHAVIOUR[b]);
        if (g_samples_left > 0) { g_samples_left--; sample(wt); }
        {   // parked writers are destroyed here, off the worker, only once their timers have fired (a writer whose timer is still
            // armed disarms it in its destructor, which belongs on the worker thread)
            std::vector<std::unique_ptr<Http::ResponseWriter>> dead; double last;
            { std::lock_guard<std::mutex> g(g_m); dead.swap(LifeHttpHandler::parked()); last = LifeHttpHandler::lastParked(); }
            if (!dead.empty()) { while (lv::now() < last + 0.45) lv::msleep(10); for (int k = 0; k < 200; k++) { bool armed = false; for (auto& w : dead) armed |= w->timeout().isArmed(); if (!armed) break; lv::msleep(10); } }
        }
        {   // a worker that is stuck (dead-locked on one of its own locks, say) never lets the endpoint go: a watchdog turns that into a witness
            std::atomic<bool> down{false}; std::string srvk = http ? "http" : "tcp";
            std::thread dog([&] { double end = lv::now() + 20.0 * lv::load_factor(); while (!down.load() && lv::now() < end) lv::msleep(20);
                if (!down.load()) { violation("c08:server-does-not-shut-down:" + srvk, "shutdown / destruction of the server did not return after the round [" + bt + "]: a framework thread is stuck", wt); g_distinct.flush(); _exit(3); } });
            if (http) ep->shutdown(); else listener->shutdown();
            ep.reset(); listener.reset();
            down = true; dog.join();
        }
        lv::msleep(20);
    }
}

#include "server_more.h"
#include "server_heap.h"

int main(int argc, char** argv) {
    g_opts = parse_opts(argc, argv);
#if LV_INTERPOSE
    lv::ip().pollDelayMaxMs = (int)g_opts.num("poll-delay", 0);   // see live.h: loop threads come back to their pollers late
#endif
    install_handlers();
    std::string prop = g_opts.get("prop", "c14s");
    if (prop == "c14s") run_c14s(g_opts.cases);
    else if (prop == "c14t") run_c14t(g_opts.cases);
    else if (prop == "c08") run_c08(g_opts.cases);
    else if (prop == "c08h") run_c08h(g_opts.cases);
    else run_more(prop, g_opts.cases);
    g_distinct.flush();
    Json s; s.str("t", "sum").num("evaluations", g_evals);
#if LV_INTERPOSE
    if (lv::ip().pollDelays.load()) g_counts["poll_delays_injected"] = lv::ip().pollDelays.load();
#endif
    Json c; for (auto& kv : g_counts) c.num(kv.first, kv.second);
    s.raw("counts", c.done());
    emit(s.done());
    _exit(0);
}
