from checks.live import c05_client_requests  # noqa
