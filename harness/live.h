// Shared support for the live (socket-level) harnesses: link-time interposers for
// send/sendfile/recv/accept4/close (plain flavour only), a raw TCP client, an independent
// HTTP/1.1 response reader written from RFC 7230, descriptor census.
#pragma once
#include "common.h"
#include <arpa/inet.h>
#include <dlfcn.h>
#include <dirent.h>
#include <netinet/in.h>
#include <netinet/tcp.h>
#include <poll.h>
#include <sys/sendfile.h>
#include <sys/socket.h>
#include <atomic>
#include <algorithm>
#include <sys/epoll.h>
#include <mutex>
#include <thread>
#include <chrono>

namespace lv {

// ------------------------------------------------------------------ interposers
enum ActKind { A_PASS = 0, A_SHORT = 1, A_EAGAIN = 2 };
struct Act { int kind; size_t k; };
struct SendCall { size_t asked; ssize_t result; int err; long clock; bool file; };
struct FdState {
    std::vector<Act> sendScript; size_t sendPos = 0;
    std::vector<size_t> recvCaps; size_t recvPos = 0; bool recvRepeat = false;
    std::vector<SendCall> sends;
    size_t accepted = 0; long eagain = 0; long calls = 0;
};
struct Interpose {
    std::mutex m;
    std::map<int, FdState> fds;
    std::set<int> owned;                  // descriptors returned by accept4 and not yet closed
    long closeUnowned = 0, doubleClose = 0, accepts = 0, closesOwned = 0;
    std::atomic<long> closeBadf{0}; std::atomic<int> closeBadfFd{-1};   // close() calls that the kernel answered EBADF: the descriptor was closed already (or never open)
    std::atomic<long> clock{0};
    std::atomic<bool> enabled{false};
    std::atomic<bool> trackOwnership{false};
    std::vector<size_t> defaultRecvCaps; bool defaultRecvRepeat = false;   // applied to every descriptor returned by accept4
    std::atomic<bool> capAccepted{false};
    // delay injected on the ACCEPTOR thread right after it has signalled a worker's queue (an eventfd write): the worker then handles the
    // new peer - and whatever its first bytes trigger - before the acceptor has finished its own bookkeeping for that connection
    std::atomic<int> acceptorDelayMs{0}; std::atomic<long> acceptorDelays{0};
    // every recv of the process on a descriptor without a script of its own returns at most 1..globalRecvCapMax bytes (pseudo-random per
    // call): forces a segmentation on BOTH ends of an in-process client <-> server exchange
    // every epoll_wait of the process is preceded by a pause of 0..pollDelayMaxMs (half of the calls: none): the loop threads come back to their
    // pollers late, as on a busy machine, and find several readiness changes at once - input together with the housekeeping tick, a connection
    // readable and writable in one event, whole batches of new peers and queued writes.  A delay at an existing suspension point, nothing else.
    std::atomic<int> pollDelayMaxMs{0}; std::atomic<unsigned long> pollDelayCtr{0}; std::atomic<long> pollDelays{0};
    std::atomic<int> globalRecvCapMax{0}; std::atomic<unsigned long> globalRecvCtr{0}; std::atomic<long> globalRecvCapped{0};
};
inline thread_local bool tl_is_acceptor = false;
inline Interpose& ip() { static Interpose* p = new Interpose(); return *p; }

// The executable's own definitions of send/recv/... take precedence over the interceptors of the (shared) AddressSanitizer
// runtime and forward to them through dlsym(RTLD_NEXT), so the fault scripts and the ownership map also work in the asan flavour.
// ThreadSanitizer models descriptors from its own interceptors: left alone there.
#if !defined(__SANITIZE_THREAD__)
#define LV_INTERPOSE 1
#else
#define LV_INTERPOSE 0
#endif

}  // namespace lv

#if LV_INTERPOSE && defined(LV_DEFINE_INTERPOSERS)
extern "C" {
typedef ssize_t (*send_fn)(int, const void*, size_t, int);
typedef ssize_t (*sendfile_fn)(int, int, off_t*, size_t);
typedef ssize_t (*recv_fn)(int, void*, size_t, int);
typedef int (*accept4_fn)(int, struct sockaddr*, socklen_t*, int);
typedef int (*close_fn)(int);
ssize_t send(int fd, const void* buf, size_t len, int flags) {
    static send_fn real = (send_fn)dlsym(RTLD_NEXT, "send");
    lv::Interpose& I = lv::ip();
    if (!I.enabled.load(std::memory_order_relaxed)) return real(fd, buf, len, flags);
    lv::Act act{lv::A_PASS, 0};
    {
        std::lock_guard<std::mutex> g(I.m);
        auto it = I.fds.find(fd);
        if (it == I.fds.end()) return real(fd, buf, len, flags);
        lv::FdState& s = it->second;
        if (s.sendPos < s.sendScript.size()) act = s.sendScript[s.sendPos++];
    }
    ssize_t r; int e = 0;
    if (act.kind == lv::A_EAGAIN) { r = -1; e = EAGAIN; }
    else { size_t n = act.kind == lv::A_SHORT ? std::min(len, std::max<size_t>(1, act.k)) : len; r = real(fd, buf, n, flags); e = errno; }
    {
        std::lock_guard<std::mutex> g(I.m);
        lv::FdState& s = I.fds[fd];
        s.calls++;
        if (r > 0) s.accepted += (size_t)r;
        if (r < 0 && (e == EAGAIN || e == EWOULDBLOCK)) s.eagain++;
        if (s.sends.size() < 4096) s.sends.push_back({len, r, r < 0 ? e : 0, ++I.clock, false});
    }
    errno = e;
    return r;
}
ssize_t sendfile(int out, int in, off_t* off, size_t len) {
    static sendfile_fn real = (sendfile_fn)dlsym(RTLD_NEXT, "sendfile");
    lv::Interpose& I = lv::ip();
    if (!I.enabled.load(std::memory_order_relaxed)) return real(out, in, off, len);
    lv::Act act{lv::A_PASS, 0};
    {
        std::lock_guard<std::mutex> g(I.m);
        auto it = I.fds.find(out);
        if (it == I.fds.end()) return real(out, in, off, len);
        lv::FdState& s = it->second;
        if (s.sendPos < s.sendScript.size()) act = s.sendScript[s.sendPos++];
    }
    ssize_t r; int e = 0;
    if (act.kind == lv::A_EAGAIN) { r = -1; e = EAGAIN; }
    else { size_t n = act.kind == lv::A_SHORT ? std::min(len, std::max<size_t>(1, act.k)) : len; r = real(out, in, off, n); e = errno; }
    {
        std::lock_guard<std::mutex> g(I.m);
        lv::FdState& s = I.fds[out];
        s.calls++;
        if (r > 0) s.accepted += (size_t)r;
        if (r < 0 && (e == EAGAIN || e == EWOULDBLOCK)) s.eagain++;
        if (s.sends.size() < 4096) s.sends.push_back({len, r, r < 0 ? e : 0, ++I.clock, true});
    }
    errno = e;
    return r;
}
ssize_t recv(int fd, void* buf, size_t len, int flags) {
    static recv_fn real = (recv_fn)dlsym(RTLD_NEXT, "recv");
    lv::Interpose& I = lv::ip();
    if (!I.enabled.load(std::memory_order_relaxed)) return real(fd, buf, len, flags);
    size_t cap = len;
    {
        std::lock_guard<std::mutex> g(I.m);
        auto it = I.fds.find(fd);
        if (it != I.fds.end() && !it->second.recvCaps.empty()) {
            lv::FdState& s = it->second;
            if (s.recvPos < s.recvCaps.size()) cap = std::min(len, std::max<size_t>(1, s.recvCaps[s.recvPos++]));
            else if (s.recvRepeat) { s.recvPos = 0; cap = std::min(len, std::max<size_t>(1, s.recvCaps[s.recvPos++])); }
        } else if (int gm = I.globalRecvCapMax.load(std::memory_order_relaxed)) {
            unsigned long z = I.globalRecvCtr.fetch_add(1, std::memory_order_relaxed) * 0x9E3779B97F4A7C15ul + 0x1234567ul; z ^= z >> 29; z *= 0xBF58476D1CE4E5B9ul; z ^= z >> 32;
            cap = std::min(len, (size_t)(1 + z % (unsigned long)gm)); if (cap < len) I.globalRecvCapped++;
        }
    }
    return real(fd, buf, cap, flags);
}
ssize_t write(int fd, const void* buf, size_t len) {
    typedef ssize_t (*write_fn)(int, const void*, size_t);
    static write_fn real = (write_fn)dlsym(RTLD_NEXT, "write");
    ssize_t r = real(fd, buf, len);
    if (len == 8 && lv::tl_is_acceptor) { int d = lv::ip().acceptorDelayMs.load(std::memory_order_relaxed); if (d > 0) { lv::ip().acceptorDelays++; int e = errno; usleep((useconds_t)d * 1000); errno = e; } }
    return r;
}
int epoll_wait(int epfd, struct epoll_event* events, int maxevents, int timeout) {
    typedef int (*epoll_wait_fn)(int, struct epoll_event*, int, int);
    static epoll_wait_fn real = (epoll_wait_fn)dlsym(RTLD_NEXT, "epoll_wait");
    lv::Interpose& I = lv::ip();
    if (int mx = I.pollDelayMaxMs.load(std::memory_order_relaxed)) {
        unsigned long z = I.pollDelayCtr.fetch_add(1, std::memory_order_relaxed) * 0x9E3779B97F4A7C15ul + 0x7654321ul; z ^= z >> 31; z *= 0xBF58476D1CE4E5B9ul; z ^= z >> 29;
        if (z & 1) { usleep((useconds_t)(1 + (z >> 8) % (unsigned long)mx) * 1000); I.pollDelays++; }
    }
    return real(epfd, events, maxevents, timeout);
}
int accept4(int fd, struct sockaddr* a, socklen_t* l, int flags) {
    static accept4_fn real = (accept4_fn)dlsym(RTLD_NEXT, "accept4");
    lv::tl_is_acceptor = true;
    int r = real(fd, a, l, flags);
    lv::Interpose& I = lv::ip();
    if (r >= 0 && I.trackOwnership.load(std::memory_order_relaxed)) { std::lock_guard<std::mutex> g(I.m); I.owned.insert(r); I.accepts++; }
    if (r >= 0 && I.capAccepted.load(std::memory_order_relaxed)) { std::lock_guard<std::mutex> g(I.m); lv::FdState& s = I.fds[r]; s = lv::FdState(); s.recvCaps = I.defaultRecvCaps; s.recvRepeat = I.defaultRecvRepeat; }
    return r;
}
int close(int fd) {
    static close_fn real = (close_fn)dlsym(RTLD_NEXT, "close");
    lv::Interpose& I = lv::ip();
    if (I.trackOwnership.load(std::memory_order_relaxed)) {
        std::lock_guard<std::mutex> g(I.m);
        auto it = I.owned.find(fd);
        if (it != I.owned.end()) { I.owned.erase(it); I.closesOwned++; }
        I.fds.erase(fd);
    } else if (I.capAccepted.load(std::memory_order_relaxed)) { std::lock_guard<std::mutex> g(I.m); I.fds.erase(fd); }
    int rc = real(fd);
    if (rc == -1 && errno == EBADF && fd >= 0) { I.closeBadf++; I.closeBadfFd = fd; errno = EBADF; }
    return rc;
}
}
#endif

namespace lv {

inline double now() { return vf::now_s(); }
inline void msleep(int ms) { std::this_thread::sleep_for(std::chrono::milliseconds(ms)); }

// Load sentinel: how much does a 20 ms sleep overshoot right now?  Used to scale waits.
inline double load_factor() {
    double t0 = now(); msleep(20); double d = now() - t0;
    double f = d / 0.020;
    return f < 1.0 ? 1.0 : f > 20 ? 20 : f;
}

// ------------------------------------------------------------------ raw client
struct Conn {
    int fd = -1;
    int localPort = 0;
    bool open_to(int port, int rcvbuf = 0) {
        fd = ::socket(AF_INET, SOCK_STREAM, 0);
        if (fd < 0) return false;
        if (rcvbuf > 0) setsockopt(fd, SOL_SOCKET, SO_RCVBUF, &rcvbuf, sizeof rcvbuf);
        sockaddr_in a{}; a.sin_family = AF_INET; a.sin_port = htons((uint16_t)port); a.sin_addr.s_addr = htonl(INADDR_LOOPBACK);
        if (::connect(fd, (sockaddr*)&a, sizeof a) < 0) { ::close(fd); fd = -1; return false; }
        int one = 1; setsockopt(fd, IPPROTO_TCP, TCP_NODELAY, &one, sizeof one);
        sockaddr_in l{}; socklen_t ll = sizeof l; getsockname(fd, (sockaddr*)&l, &ll); localPort = ntohs(l.sin_port);
        return true;
    }
    bool send_all(const std::string& s) {
        size_t off = 0;
        while (off < s.size()) { ssize_t n = ::send(fd, s.data() + off, s.size() - off, MSG_NOSIGNAL); if (n <= 0) { if (errno == EINTR) continue; return false; } off += (size_t)n; }
        return true;
    }
    // deliver in the given pieces, with a small pause between them so that they arrive as separate segments
    bool send_pieces(const std::string& s, const std::vector<size_t>& cuts, int pauseMs = 2) {
        size_t pos = 0;
        for (size_t i = 0; i <= cuts.size(); i++) {
            size_t end = i < cuts.size() ? cuts[i] : s.size();
            if (end > pos) { if (!send_all(s.substr(pos, end - pos))) return false; if (i < cuts.size() && pauseMs) msleep(pauseMs); }
            pos = end;
        }
        return true;
    }
    // read whatever arrives within timeoutMs of silence (or until maxBytes / EOF); returns false on EOF/error
    bool read_some(std::string& out, int timeoutMs, size_t maxBytes = 1 << 30, bool* eof = nullptr) {
        struct pollfd p{fd, POLLIN, 0};
        int r = ::poll(&p, 1, timeoutMs);
        if (r <= 0) return true;
        char buf[65536];
        ssize_t n = ::recv(fd, buf, std::min(sizeof buf, maxBytes), 0);
        if (n > 0) { out.append(buf, (size_t)n); return true; }
        if (eof) *eof = true;
        return false;
    }
    void rst_close() { if (fd < 0) return; struct linger lg{1, 0}; setsockopt(fd, SOL_SOCKET, SO_LINGER, &lg, sizeof lg); ::close(fd); fd = -1; }
    void close_now() { if (fd >= 0) ::close(fd); fd = -1; }
    void half_close() { if (fd >= 0) ::shutdown(fd, SHUT_WR); }
    ~Conn() { close_now(); }
};

// ------------------------------------------------------------------ independent HTTP/1.1 message reader (RFC 7230)
struct HttpMsg {
    bool complete = false;
    std::string error;            // grammar violation, if any
    int status = 0; std::string reason, version;
    std::string method, target;   // for requests
    std::vector<std::pair<std::string, std::string>> headers;
    std::string body;
    std::vector<size_t> chunkSizes;
    bool chunked = false; bool hasLength = false; size_t contentLength = 0;
    std::vector<std::string> codings;   // the transfer codings of all Transfer-Encoding lines, in order, lower case
    size_t consumed = 0;          // bytes of input that belong to this message
    size_t headBytes = 0;
    std::string header(const std::string& name) const {
        for (auto& h : headers) { if (h.first.size() == name.size() && strcasecmp(h.first.c_str(), name.c_str()) == 0) return h.second; }
        return "";
    }
    int count(const std::string& name) const { int n = 0; for (auto& h : headers) if (h.first.size() == name.size() && strcasecmp(h.first.c_str(), name.c_str()) == 0) n++; return n; }
};
inline bool is_tchar(unsigned char c) { return isalnum(c) || strchr("!#$%&'*+-.^_`|~", c); }
// Parses one message from data[off..]; when isResponse the start line is a status-line.  complete=false and
// error empty means "need more bytes".
inline HttpMsg parse_http(const std::string& data, size_t off, bool isResponse, bool headRequest = false) {
    HttpMsg m;
    size_t p = data.find("\r\n", off);
    if (p == std::string::npos) return m;
    std::string start = data.substr(off, p - off);
    if (isResponse) {
        // status-line = HTTP-version SP 3DIGIT SP reason-phrase
        if (start.size() < 12 || start.compare(0, 5, "HTTP/") != 0 || !isdigit((unsigned char)start[5]) || start[6] != '.' || !isdigit((unsigned char)start[7]) || start[8] != ' ') { m.error = "malformed status line: '" + start.substr(0, 60) + "'"; return m; }
        m.version = start.substr(0, 8);
        if (!isdigit((unsigned char)start[9]) || !isdigit((unsigned char)start[10]) || !isdigit((unsigned char)start[11]) || (start.size() > 12 && start[12] != ' ')) { m.error = "status code is not 3DIGIT SP: '" + start.substr(0, 60) + "'"; return m; }
        if (start.size() == 12) { m.error = "status line lacks the SP before the reason phrase"; return m; }
        m.status = atoi(start.substr(9, 3).c_str());
        m.reason = start.substr(13);
        for (unsigned char c : m.reason) if (c < 0x20 && c != '\t') { m.error = "control character in reason phrase"; return m; }
    } else {
        size_t s1 = start.find(' '), s2 = start.rfind(' ');
        if (s1 == std::string::npos || s2 == s1) { m.error = "malformed request line: '" + start.substr(0, 60) + "'"; return m; }
        m.method = start.substr(0, s1); m.target = start.substr(s1 + 1, s2 - s1 - 1); m.version = start.substr(s2 + 1);
        for (unsigned char c : m.method) if (!is_tchar(c)) { m.error = "method is not a token"; return m; }
        if (m.version != "HTTP/1.1" && m.version != "HTTP/1.0") { m.error = "bad HTTP version in request line"; return m; }
        if (m.target.empty() || m.target.find(' ') != std::string::npos) { m.error = "bad request target"; return m; }
        // RFC 7230 5.3: origin-form starts with '/', absolute-form has a scheme, authority-form is for CONNECT, '*' for OPTIONS
        if (!(m.target[0] == '/' || m.target == "*" || m.target.find("://") != std::string::npos || m.method == "CONNECT")) { m.error = "request target is not in origin-form"; return m; }
    }
    size_t q = p + 2;
    for (;;) {
        size_t e = data.find("\r\n", q);
        if (e == std::string::npos) return m;
        if (e == q) { q += 2; break; }
        std::string line = data.substr(q, e - q);
        size_t c = line.find(':');
        if (c == std::string::npos || c == 0) { m.error = "header line without field name: '" + line.substr(0, 60) + "'"; return m; }
        std::string name = line.substr(0, c);
        for (unsigned char ch : name) if (!is_tchar(ch)) { m.error = "header field name is not a token: '" + name.substr(0, 40) + "'"; return m; }
        std::string value = line.substr(c + 1);
        while (!value.empty() && (value.front() == ' ' || value.front() == '\t')) value.erase(0, 1);
        while (!value.empty() && (value.back() == ' ' || value.back() == '\t')) value.pop_back();
        for (unsigned char ch : value) if ((ch < 0x20 && ch != '\t') || ch == 0x7f) { m.error = "control character in header value of " + name; return m; }
        m.headers.push_back({name, value});
        q = e + 2;
    }
    m.headBytes = q - off;
    std::string te = m.header("Transfer-Encoding"), cl = m.header("Content-Length");
    if (m.count("Content-Length") > 1) { m.error = "more than one Content-Length"; return m; }
    // Transfer-Encoding = 1#transfer-coding: several field lines combine into one list (RFC 7230 3.2.2); chunked has to be the final coding and
    // must not be applied twice (3.3.1) - with any other final coding the receiver cannot find the end of the message
    for (auto& h : m.headers) if (strcasecmp(h.first.c_str(), "Transfer-Encoding") == 0) { size_t a = 0; while (a <= h.second.size()) { size_t b = h.second.find(',', a); if (b == std::string::npos) b = h.second.size(); std::string t = h.second.substr(a, b - a);
            while (!t.empty() && (t.front() == ' ' || t.front() == '\t')) t.erase(0, 1); while (!t.empty() && (t.back() == ' ' || t.back() == '\t')) t.pop_back(); for (auto& ch : t) ch = (char)tolower((unsigned char)ch); if (!t.empty()) m.codings.push_back(t); a = b + 1; } }
    if (!te.empty() && !cl.empty()) { m.error = "both Content-Length and Transfer-Encoding"; return m; }
    bool noBody = isResponse && (headRequest || m.status / 100 == 1 || m.status == 204 || m.status == 304);
    if (!te.empty()) {
        if (m.codings.empty() || m.codings.back() != "chunked") { m.error = "chunked is not the final transfer coding (Transfer-Encoding: " + te + ")"; return m; }
        if (std::count(m.codings.begin(), m.codings.end(), std::string("chunked")) > 1) { m.error = "chunked applied more than once"; return m; }
        for (auto& cd : m.codings) if (cd != "chunked" && cd != "gzip" && cd != "deflate" && cd != "compress" && cd != "identity" && cd != "x-gzip" && cd != "x-compress") { m.error = "unknown transfer coding '" + cd.substr(0, 20) + "'"; return m; }
        m.chunked = true;
        for (;;) {
            size_t e = data.find("\r\n", q);
            if (e == std::string::npos) return m;
            std::string sz = data.substr(q, e - q);
            size_t semi = sz.find(';'); if (semi != std::string::npos) sz.resize(semi);
            if (sz.empty()) { m.error = "empty chunk-size line"; return m; }
            for (unsigned char ch : sz) if (!isxdigit(ch)) { m.error = "chunk-size is not HEXDIG: '" + sz.substr(0, 20) + "'"; return m; }
            if (sz.size() > 15) { m.error = "chunk-size too long"; return m; }
            size_t n = (size_t)strtoull(sz.c_str(), nullptr, 16);
            q = e + 2;
            if (n == 0) {
                // trailer-part CRLF
                for (;;) { size_t t = data.find("\r\n", q); if (t == std::string::npos) return m; if (t == q) { q += 2; break; } q = t + 2; }
                break;
            }
            if (data.size() < q + n + 2) return m;
            m.body.append(data, q, n);
            m.chunkSizes.push_back(n);
            if (data[q + n] != '\r' || data[q + n + 1] != '\n') { m.error = "chunk data not followed by CRLF"; return m; }
            q += n + 2;
        }
    } else if (!cl.empty()) {
        for (unsigned char ch : cl) if (!isdigit(ch)) { m.error = "Content-Length is not 1*DIGIT: '" + cl.substr(0, 30) + "'"; return m; }
        m.hasLength = true; m.contentLength = (size_t)strtoull(cl.c_str(), nullptr, 10);
        if (!noBody) { if (data.size() < q + m.contentLength) return m; m.body = data.substr(q, m.contentLength); q += m.contentLength; }
    } else if (isResponse && !noBody) {
        // close-delimited body: not produced by the framework under test for keep-alive use; treat as empty
    }
    m.consumed = q - off;
    m.complete = true;
    return m;
}
// read one complete response from the connection (appending to `buf` starting at `off`)
inline HttpMsg read_response(Conn& c, std::string& buf, size_t off, int timeoutMs, bool headRequest = false) {
    double end = now() + timeoutMs / 1000.0;
    for (;;) {
        HttpMsg m = parse_http(buf, off, true, headRequest);
        if (m.complete || !m.error.empty()) return m;
        double left = end - now();
        if (left <= 0) { m.error = buf.size() > off ? "timeout-partial" : "timeout-silent"; return m; }
        bool eof = false;
        if (!c.read_some(buf, (int)std::min(left * 1000, 200.0), 1 << 30, &eof)) { HttpMsg m2 = parse_http(buf, off, true, headRequest); if (m2.complete || !m2.error.empty()) return m2; m2.error = buf.size() > off ? "closed-partial" : "closed-silent"; return m2; }
    }
}

// ------------------------------------------------------------------ descriptor / thread census
inline int count_dir(const char* path) { int n = 0; DIR* d = opendir(path); if (!d) return -1; while (auto* e = readdir(d)) if (e->d_name[0] != '.') n++; closedir(d); return n; }
inline int fd_count() { return count_dir("/proc/self/fd") - 1; /* the DIR itself */ }
inline int thread_count() { return count_dir("/proc/self/task"); }
inline std::string fd_listing() {
    std::string s; DIR* d = opendir("/proc/self/fd"); if (!d) return s;
    while (auto* e = readdir(d)) { if (e->d_name[0] == '.') continue; char buf[256]; std::string p = std::string("/proc/self/fd/") + e->d_name; ssize_t n = readlink(p.c_str(), buf, sizeof buf - 1); if (n > 0) { buf[n] = 0; s += std::string(e->d_name) + "->" + buf + " "; } }
    closedir(d); return s;
}

}  // namespace lv
