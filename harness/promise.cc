// C11: promise chains deliver every outcome exactly once to the right continuation.
// A seeded interpreter executes random programs over the real Async API (create / then with
// value-, void- and promise-returning continuations and ignore / rethrow / custom rejection
// handlers / whenAll / whenAny / iterator whenAll / resolve / reject in every order) and a small
// sequential reference model of the statement's sentences predicts, for every user callback, how
// often it runs and with what.  Where the statement is silent the model abstains.
#include "common.h"
#include <pistache/async.h>
#include <deque>
#include <tuple>
#include <sstream>

using namespace Pistache;
using namespace vf;

static Opts g_opts;
static Distinct g_distinct;
static long g_evals = 0;
static std::map<std::string, long> g_counts;
static CpuBudget g_cpu;
static long g_samples_left = 6;
static long g_skip_until = -1;
static void count(const std::string& k, long n = 1) { g_counts[k] += n; }

struct TestExc : std::runtime_error { int id; explicit TestExc(int i) : std::runtime_error("test-exc-" + std::to_string(i)), id(i) {} };

// ---------------------------------------------------------------- model
enum MState { M_PENDING, M_FULFILLED, M_REJECTED, M_UNKNOWN };
enum VType { T_INT, T_STR, T_VOID, T_TUPLE, T_ANY };
struct MVal { std::vector<long> ints; std::string str; bool operator==(const MVal& o) const { return ints == o.ints && str == o.str; } };
struct MNode {
    VType type = T_INT;
    MState st = M_PENDING;
    MVal val; int exc = -1;
    bool fromRejection = false;    // for M_UNKNOWN: the silence stems from a rejection handled by a non-rethrowing handler
    int step = -1;                 // program step at which it settled
    std::vector<int> conts;
    int follows = -1;
    std::vector<int> followers;    // derived promises that take this (inner) promise's outcome
    bool root = false;
    std::string origin;
};
enum CKind { K_VALUE, K_TOSTR, K_VOIDRET, K_PROMISE, K_OBSERVE, K_WHEN };
enum RKind { R_IGNORE, R_THROW, R_CUSTOM };
enum InnerPlan { IP_PENDING, IP_RESOLVED, IP_REJECTED };
struct MCont {
    int parent = -1, derived = -1;
    CKind kind = K_VALUE; RKind rk = R_IGNORE; InnerPlan plan = IP_PENDING;
    int when = -1, whenIndex = -1;  // for K_WHEN: combinator id and input index
    // expectations: -1 = abstain
    int expOk = 0, expRej = 0; MVal expVal; int expExc = -1;
    bool fulfilNeverAllowed = false;   // downstream of a rejection: the fulfilment callback must not run
    // observations (written by the real callbacks)
    int okCalls = 0, rejCalls = 0; MVal seenVal; int seenExc = -1; std::exception_ptr seenPtr;
    bool fired = false;
};
struct MWhen {
    bool any = false, range = false;
    std::vector<int> inputs;
    int result = -1;
    std::vector<int> settledOrder;   // inputs in the order they settled
    int createdStep = 0;             // program step at which the combinator was built
};
struct Model {
    std::vector<MNode> nodes;
    std::vector<MCont> conts;
    std::vector<MWhen> whens;
    int step = 0;
    // real objects
    std::deque<Async::Promise<int>> ints;
    std::deque<Async::Promise<std::string>> strs;
    std::deque<Async::Promise<void>> voids;
    std::map<int, int> slot;                   // node id -> index in its typed deque
    std::map<int, Async::Deferred<int>> dInt;  // settle handles of roots
    std::map<int, Async::Deferred<void>> dVoid;
    std::map<int, std::exception_ptr> excPtr;  // exception id -> the exception_ptr first seen by a handler
    std::vector<std::string> trace;
    std::vector<std::unique_ptr<Async::PromiseBase>> results;  // combined promises kept alive; index = node id of result
    std::map<int, Async::PromiseBase*> realOf;                 // node id -> real promise (for isFulfilled/isRejected)
};
static Model* M;
static bool g_in_settle = false;

static int new_node(VType t, const std::string& origin) { MNode n; n.type = t; n.origin = origin; M->nodes.push_back(n); return (int)M->nodes.size() - 1; }
static void settle_model(int node, MState st, const MVal& v, int exc, bool fromRej);
static void fire(int ci);

static void when_input_settled(int wi, int inputIdx) {
    MWhen& w = M->whens[wi];
    MNode& res = M->nodes[w.result];
    w.settledOrder.push_back(inputIdx);
    if (res.st != M_PENDING) return;
    const MNode& in = M->nodes[w.inputs[inputIdx]];
    if (in.st == M_UNKNOWN) { settle_model(w.result, M_UNKNOWN, MVal(), -1, in.fromRejection); return; }
    if (w.any) {
        if (in.st == M_FULFILLED) { MVal v = in.val; settle_model(w.result, M_FULFILLED, v, -1, false); }
        else settle_model(w.result, M_REJECTED, MVal(), in.exc, false);
        return;
    }
    if (in.st == M_REJECTED) { settle_model(w.result, M_REJECTED, MVal(), in.exc, false); return; }
    bool all = true; MVal tv;
    for (int id : w.inputs) { const MNode& x = M->nodes[id]; if (x.st != M_FULFILLED) { all = false; break; } if (x.type == T_INT) tv.ints.push_back(x.val.ints[0]); else if (x.type == T_STR) tv.str += "<" + x.val.str + ">"; else tv.ints.push_back(-777); }
    if (all) settle_model(w.result, M_FULFILLED, tv, -1, false);
}
static void settle_model(int node, MState st, const MVal& v, int exc, bool fromRej) {
    MNode& n = M->nodes[node];
    if (n.st != M_PENDING) return;
    n.st = st; n.val = v; n.exc = exc; n.fromRejection = fromRej; n.step = M->step;
    std::vector<int> cs = n.conts;
    for (int ci : cs) fire(ci);
    std::vector<int> fs = n.followers;
    for (int f : fs) settle_model(f, st, v, exc, fromRej);
}
// what the statement says happens when continuation ci meets its (now settled) parent
static void fire(int ci) {
    MCont& c = M->conts[ci];
    if (c.fired) return;
    c.fired = true;
    const MNode p = M->nodes[c.parent];
    if (p.st == M_UNKNOWN) {
        c.expOk = p.fromRejection ? 0 : -1; c.fulfilNeverAllowed = p.fromRejection; c.expRej = -1;
        if (c.kind == K_WHEN) when_input_settled(c.when, c.whenIndex);
        else if (c.derived >= 0) settle_model(c.derived, M_UNKNOWN, MVal(), -1, p.fromRejection);
        return;
    }
    if (p.st == M_FULFILLED) {
        c.expOk = 1; c.expRej = 0; c.expVal = p.val;
        switch (c.kind) {
        case K_VALUE: { MVal v; v.ints.push_back(p.type == T_VOID ? 1000 : p.type == T_STR ? (long)p.val.str.size() : p.val.ints[0] + 1); settle_model(c.derived, M_FULFILLED, v, -1, false); break; }
        case K_TOSTR: { MVal v; v.str = "string-value-long-enough-to-live-on-the-heap-" + std::to_string(p.val.ints[0]); settle_model(c.derived, M_FULFILLED, v, -1, false); break; }
        case K_VOIDRET: settle_model(c.derived, M_UNKNOWN, MVal(), -1, false); break;   // statement silent: whether the derived promise settles
        case K_PROMISE: /* inner promise is created by the real callback; see on_promise_cb */ break;
        case K_OBSERVE: break;
        case K_WHEN: when_input_settled(c.when, c.whenIndex); break;
        }
    } else {  // rejected
        c.expOk = 0; c.expRej = 1; c.expExc = (p.type == T_TUPLE || p.type == T_ANY) ? -1 : p.exc;   // the statement does not say which exception a combinator rejects with
        if (c.kind == K_WHEN) { when_input_settled(c.when, c.whenIndex); return; }
        if (c.derived < 0) return;
        if (c.rk == R_THROW) settle_model(c.derived, M_REJECTED, MVal(), p.exc, false);
        else settle_model(c.derived, M_UNKNOWN, MVal(), -1, true);
    }
}

// ---------------------------------------------------------------- real callbacks
static int exc_id(std::exception_ptr p) {
    if (!p) return -2;
    try { std::rethrow_exception(p); } catch (const TestExc& e) { return e.id; } catch (...) { return -3; }
}
static void record_ok(int ci, const MVal& v) { MCont& c = M->conts[ci]; c.okCalls++; c.seenVal = v; }
static void record_rej(int ci, std::exception_ptr p) { MCont& c = M->conts[ci]; c.rejCalls++; c.seenExc = exc_id(p); c.seenPtr = p; }
struct CustomRej { int ci; void operator()(std::exception_ptr p) const { record_rej(ci, p); } };
struct ThrowRej { int ci; void operator()(std::exception_ptr p) const { record_rej(ci, p); Async::Throw(p); } };
struct IgnoreRej { int ci; void operator()(std::exception_ptr p) const { record_rej(ci, p); Async::IgnoreException(p); } };

static int add_real_int(Async::Promise<int>&& p, int node) { M->ints.push_back(std::move(p)); M->slot[node] = (int)M->ints.size() - 1; M->realOf[node] = &M->ints.back(); return node; }
static int add_real_str(Async::Promise<std::string>&& p, int node) { M->strs.push_back(std::move(p)); M->slot[node] = (int)M->strs.size() - 1; M->realOf[node] = &M->strs.back(); return node; }
static int add_real_void(Async::Promise<void>&& p, int node) { M->voids.push_back(std::move(p)); M->slot[node] = (int)M->voids.size() - 1; M->realOf[node] = &M->voids.back(); return node; }

static int create_root(VType t, const std::string& origin) {
    int n = new_node(t, origin);
    M->nodes[n].root = true;
    if (t == T_INT) { Async::Promise<int> p([&](Async::Deferred<int> d) { M->dInt[n] = std::move(d); }); add_real_int(std::move(p), n); }
    else { Async::Promise<void> p([&](Async::Deferred<void> d) { M->dVoid[n] = std::move(d); }); add_real_void(std::move(p), n); }
    return n;
}
// the promise-returning continuation creates its inner promise when it runs
static Async::Promise<int> make_inner(int ci, long inval) {
    MCont& c = M->conts[ci];
    int inner;
    if (c.plan == IP_PENDING) {
        inner = new_node(T_INT, "inner-pending");
        M->nodes[inner].root = true;
        Async::Promise<int> p([&](Async::Deferred<int> d) { M->dInt[inner] = std::move(d); });
        M->nodes[inner].followers.push_back(M->conts[ci].derived);
        M->trace.push_back("  (callback " + std::to_string(ci) + " returns pending inner promise n" + std::to_string(inner) + ")");
        return p;
    }
    inner = new_node(T_INT, c.plan == IP_RESOLVED ? "inner-resolved" : "inner-rejected");
    M->nodes[inner].followers.push_back(M->conts[ci].derived);
    if (c.plan == IP_RESOLVED) { MVal v; v.ints.push_back(inval + 7); M->nodes[inner].st = M_FULFILLED; M->nodes[inner].val = v; M->nodes[inner].step = M->step; settle_model(M->conts[ci].derived, M_FULFILLED, v, -1, false); return Async::Promise<int>::resolved((int)(inval + 7)); }
    int e = 9000 + ci; M->nodes[inner].st = M_REJECTED; M->nodes[inner].exc = e; M->nodes[inner].step = M->step; settle_model(M->conts[ci].derived, M_REJECTED, MVal(), e, false);
    return Async::Promise<int>::rejected(TestExc(e));
}

template <class Rej> static void attach_int(int parent, int ci, Rej rej) {
    MCont& c = M->conts[ci];
    Async::Promise<int>& p = M->ints[M->slot[parent]];
    switch (c.kind) {
    case K_VALUE: { int d = new_node(T_INT, "then-value"); M->conts[ci].derived = d; add_real_int(p.then([ci](int v) { MVal mv; mv.ints.push_back(v); record_ok(ci, mv); return v + 1; }, rej), d); break; }
    case K_TOSTR: { int d = new_node(T_STR, "then-tostr"); M->conts[ci].derived = d; add_real_str(p.then([ci](int v) { MVal mv; mv.ints.push_back(v); record_ok(ci, mv); return std::string("string-value-long-enough-to-live-on-the-heap-") + std::to_string(v); }, rej), d); break; }
    case K_VOIDRET: { int d = new_node(T_VOID, "then-void"); M->conts[ci].derived = d; add_real_void(p.then([ci](int v) { MVal mv; mv.ints.push_back(v); record_ok(ci, mv); }, rej), d); break; }
    case K_PROMISE: { int d = new_node(T_INT, "then-promise"); M->conts[ci].derived = d; add_real_int(p.then([ci](int v) { MVal mv; mv.ints.push_back(v); record_ok(ci, mv); return make_inner(ci, v); }, rej), d); break; }
    default: break;
    }
}
template <class Rej> static void attach_str(int parent, int ci, Rej rej) {
    MCont& c = M->conts[ci];
    Async::Promise<std::string>& p = M->strs[M->slot[parent]];
    if (c.kind == K_VOIDRET) { int d = new_node(T_VOID, "then-void"); M->conts[ci].derived = d; add_real_void(p.then([ci](const std::string& v) { MVal mv; mv.str = v; record_ok(ci, mv); }, rej), d); }
    else { c.kind = K_VALUE; int d = new_node(T_INT, "then-value"); M->conts[ci].derived = d;
        // by value on purpose: a continuation taking its argument by value must not consume the value other consumers of the promise still get
        add_real_int(p.then([ci](std::string v) { MVal mv; mv.str = v; record_ok(ci, mv); return (int)v.size(); }, rej), d); }
}
template <class Rej> static void attach_void(int parent, int ci, Rej rej) {
    MCont& c = M->conts[ci];
    Async::Promise<void>& p = M->voids[M->slot[parent]];
    if (c.kind == K_VOIDRET) { int d = new_node(T_VOID, "then-void"); M->conts[ci].derived = d; add_real_void(p.then([ci]() { record_ok(ci, MVal()); }, rej), d); }
    else if (c.kind == K_PROMISE) { int d = new_node(T_INT, "then-promise"); M->conts[ci].derived = d; add_real_int(p.then([ci]() { record_ok(ci, MVal()); return make_inner(ci, 500); }, rej), d); }
    else { c.kind = K_VALUE; int d = new_node(T_INT, "then-value"); M->conts[ci].derived = d; add_real_int(p.then([ci]() { record_ok(ci, MVal()); return 1000; }, rej), d); }
}
static const char* KNAME[] = {"value", "tostr", "voidret", "promise", "observe", "when"};
static const char* RNAME[] = {"ignore", "throw", "custom"};
static const char* SNAME[] = {"pending", "fulfilled", "rejected", "unknown"};

static void op_then(int parent, CKind kind, RKind rk, InnerPlan plan) {
    MCont c; c.parent = parent; c.kind = kind; c.rk = rk; c.plan = plan;
    M->conts.push_back(c);
    int ci = (int)M->conts.size() - 1;
    VType t = M->nodes[parent].type;
    auto go = [&](auto rej) {
        if (t == T_INT) attach_int(parent, ci, rej);
        else if (t == T_STR) attach_str(parent, ci, rej);
        else attach_void(parent, ci, rej);
    };
    // the real then() runs the callback at once when the parent is settled; make the model node exist first
    // (attach_* creates the derived node before calling then()), then let the model fire
    M->trace.push_back("then(n" + std::to_string(parent) + "[" + SNAME[M->nodes[parent].st] + "], " + KNAME[kind] + ", " + RNAME[rk] + (kind == K_PROMISE ? (plan == IP_PENDING ? ", inner pending" : plan == IP_RESOLVED ? ", inner resolved" : ", inner rejected") : "") + ") = c" + std::to_string(ci));
    // Order matters for promise-returning continuations on settled parents: the real callback (which creates the
    // inner node) runs inside then(); the model's fire() for K_PROMISE does nothing itself.
    if (rk == R_IGNORE) go(IgnoreRej{ci}); else if (rk == R_THROW) go(ThrowRej{ci}); else go(CustomRej{ci});
    M->nodes[parent].conts.push_back(ci);
    if (M->nodes[parent].st != M_PENDING) fire(ci);
}

// whenAll / whenAny over int promises (arity 1..4), plus a (int, string) pair for typed order
template <class P> static void observe_result(P& promise, int resNode, bool isAny, int arity) {
    MCont c; c.parent = resNode; c.kind = K_OBSERVE; c.rk = R_CUSTOM;
    M->conts.push_back(c);
    int ci = (int)M->conts.size() - 1;
    (void)arity;
    (void)isAny;
    M->nodes[resNode].conts.push_back(ci);
    (void)promise;
}
template <size_t... I, class Tuple> static MVal tuple_val(const Tuple& t, std::index_sequence<I...>) { MVal v; (void)std::initializer_list<int>{(v.ints.push_back(std::get<I>(t)), 0)...}; return v; }

static int new_when(bool any, bool range, const std::vector<int>& inputs) {
    MWhen w; w.any = any; w.range = range; w.inputs = inputs; w.createdStep = M->step;
    w.result = new_node(any ? T_ANY : T_TUPLE, any ? "whenAny" : range ? "whenAll-range" : "whenAll");
    M->whens.push_back(w);
    int wi = (int)M->whens.size() - 1;
    for (size_t k = 0; k < inputs.size(); k++) {
        MCont c; c.parent = inputs[k]; c.kind = K_WHEN; c.when = wi; c.whenIndex = (int)k;
        M->conts.push_back(c);
        M->nodes[inputs[k]].conts.push_back((int)M->conts.size() - 1);
    }
    return wi;
}
static int add_observer(int resNode) {
    MCont c; c.parent = resNode; c.kind = K_OBSERVE; c.rk = R_CUSTOM;
    M->conts.push_back(c);
    return (int)M->conts.size() - 1;
}
template <class P> static void keep(P&& p, int node) {
    auto* heap = new typename std::decay<P>::type(std::move(p));
    M->realOf[node] = heap;
    M->results.emplace_back(heap);
}
static Async::Promise<int>& IP(int node) { return M->ints[M->slot[node]]; }

// The combinators also take plain values ("whenAll(p1, 123, p3)"): an input that is already fulfilled is, now and then, handed over as its value
// instead of as a promise - the statement makes no difference between the two, and neither does the model.
static long g_plain_value_inputs = 0;
template <size_t N> struct IntTuple;
template <> struct IntTuple<1> { typedef std::tuple<int> type; }; template <> struct IntTuple<2> { typedef std::tuple<int, int> type; };
template <> struct IntTuple<3> { typedef std::tuple<int, int, int> type; }; template <> struct IntTuple<4> { typedef std::tuple<int, int, int, int> type; };
template <size_t N, bool ANY, class... A> static void build_when(int ci, int res, const std::vector<int>& in, const std::vector<char>& plain, A&&... a) {
    constexpr size_t k = sizeof...(A);
    if constexpr (k == N) {
        auto rej = CustomRej{ci};
        if constexpr (ANY) { auto p = Async::whenAny(std::forward<A>(a)...); p.then([ci](const Async::Any& x) { MVal v; if (x.is<int>()) v.ints.push_back(x.cast<int>()); else v.str = "<not-int>"; record_ok(ci, v); }, rej); keep(std::move(p), res); }
        else { auto p = Async::whenAll(std::forward<A>(a)...); p.then([ci](const typename IntTuple<N>::type& t) { record_ok(ci, tuple_val(t, std::make_index_sequence<N>())); }, rej); keep(std::move(p), res); }
    } else {
        if (plain[k]) { int v = (int)M->nodes[in[k]].val.ints[0]; if (k % 2) build_when<N, ANY>(ci, res, in, plain, std::forward<A>(a)..., v); else build_when<N, ANY>(ci, res, in, plain, std::forward<A>(a)..., int(v)); }   // (as an lvalue and as a temporary)
        else build_when<N, ANY>(ci, res, in, plain, std::forward<A>(a)..., IP(in[k]));
    }
}
static void op_when(bool any, const std::vector<int>& inputs) {
    // model: the real whenX attaches to its inputs in argument order, synchronously
    std::string tr = std::string(any ? "whenAny(" : "whenAll(");
    for (int i : inputs) tr += "n" + std::to_string(i) + "[" + SNAME[M->nodes[i].st] + "] ";
    int wi = new_when(any, false, inputs);
    int res = M->whens[wi].result;
    int ci = add_observer(res);
    M->trace.push_back(tr + ") = n" + std::to_string(res) + ", observer c" + std::to_string(ci));
    // model first (inputs already settled fire in argument order), then the real call
    for (size_t k = 0; k < inputs.size(); k++) { int cidx = M->nodes[inputs[k]].conts.back(); (void)cidx; }
    // fire model continuations of already-settled inputs in argument order
    for (size_t k = 0; k < inputs.size(); k++) if (M->nodes[inputs[k]].st != M_PENDING) { for (int c2 : M->nodes[inputs[k]].conts) if (M->conts[c2].kind == K_WHEN && M->conts[c2].when == wi && M->conts[c2].whenIndex == (int)k) fire(c2); }
    // plain values among the inputs (one program in four; only inputs that are fulfilled int nodes qualify)
    std::vector<char> plain(inputs.size(), 0); bool anyPlain = false;
    if ((M->step + (int)inputs.size()) % 4 == 1) for (size_t k = 0; k < inputs.size(); k++) if (M->nodes[inputs[k]].st == M_FULFILLED && M->nodes[inputs[k]].type == T_INT && !M->nodes[inputs[k]].val.ints.empty() && (k + (size_t)M->step) % 3 != 0) { plain[k] = 1; anyPlain = true; }
    if (anyPlain && (inputs.size() > 3 || (any && inputs.size() > 2))) anyPlain = false;   // (kept to 20 instantiations: every one of them is a template family of its own)
    if (anyPlain) {
        M->trace.push_back("  (inputs handed over as plain values: " + [&] { std::string t; for (size_t k = 0; k < plain.size(); k++) if (plain[k]) t += "n" + std::to_string(inputs[k]) + " "; return t; }() + ")");
        g_plain_value_inputs++; count("combinators_with_plain_value_inputs");
        switch (inputs.size()) {
        case 1: if (any) build_when<1, true>(ci, res, inputs, plain); else build_when<1, false>(ci, res, inputs, plain); break;
        case 2: if (any) build_when<2, true>(ci, res, inputs, plain); else build_when<2, false>(ci, res, inputs, plain); break;
        default: build_when<3, false>(ci, res, inputs, plain); break;
        }
        M->nodes[res].conts.push_back(ci);
        if (M->nodes[res].st != M_PENDING) fire(ci);
        return;
    }
    auto rej = CustomRej{ci};
    if (any) {
        auto onAny = [ci](const Async::Any& a) { MVal v; if (a.is<int>()) v.ints.push_back(a.cast<int>()); else v.str = "<not-int>"; record_ok(ci, v); };
        switch (inputs.size()) {
        case 1: { auto p = Async::whenAny(IP(inputs[0])); p.then(onAny, rej); keep(std::move(p), res); break; }
        case 2: { auto p = Async::whenAny(IP(inputs[0]), IP(inputs[1])); p.then(onAny, rej); keep(std::move(p), res); break; }
        case 3: { auto p = Async::whenAny(IP(inputs[0]), IP(inputs[1]), IP(inputs[2])); p.then(onAny, rej); keep(std::move(p), res); break; }
        default: { auto p = Async::whenAny(IP(inputs[0]), IP(inputs[1]), IP(inputs[2]), IP(inputs[3])); p.then(onAny, rej); keep(std::move(p), res); break; }
        }
    } else {
        switch (inputs.size()) {
        case 1: { auto p = Async::whenAll(IP(inputs[0])); p.then([ci](const std::tuple<int>& t) { record_ok(ci, tuple_val(t, std::make_index_sequence<1>())); }, rej); keep(std::move(p), res); break; }
        case 2: { auto p = Async::whenAll(IP(inputs[0]), IP(inputs[1])); p.then([ci](const std::tuple<int, int>& t) { record_ok(ci, tuple_val(t, std::make_index_sequence<2>())); }, rej); keep(std::move(p), res); break; }
        case 3: { auto p = Async::whenAll(IP(inputs[0]), IP(inputs[1]), IP(inputs[2])); p.then([ci](const std::tuple<int, int, int>& t) { record_ok(ci, tuple_val(t, std::make_index_sequence<3>())); }, rej); keep(std::move(p), res); break; }
        default: { auto p = Async::whenAll(IP(inputs[0]), IP(inputs[1]), IP(inputs[2]), IP(inputs[3])); p.then([ci](const std::tuple<int, int, int, int>& t) { record_ok(ci, tuple_val(t, std::make_index_sequence<4>())); }, rej); keep(std::move(p), res); break; }
        }
    }
    M->nodes[res].conts.push_back(ci);
    if (M->nodes[res].st != M_PENDING) fire(ci);
}
// iterator whenAll over a contiguous slice of the int deque
static void op_when_range(int firstSlot, int lastSlot) {
    std::vector<int> inputs;
    std::map<int, int> nodeOfSlot;
    for (auto& kv : M->slot) if (M->nodes[kv.first].type == T_INT && kv.first < (int)M->nodes.size()) nodeOfSlot[kv.second] = -1;
    for (size_t n = 0; n < M->nodes.size(); n++) if (M->nodes[n].type == T_INT && M->slot.count((int)n)) nodeOfSlot[M->slot[(int)n]] = (int)n;
    for (int s = firstSlot; s < lastSlot; s++) inputs.push_back(nodeOfSlot[s]);
    int wi = new_when(false, true, inputs);
    int res = M->whens[wi].result;
    int ci = add_observer(res);
    std::string tr = "whenAll(range ";
    for (int i : inputs) tr += "n" + std::to_string(i) + "[" + SNAME[M->nodes[i].st] + "] ";
    M->trace.push_back(tr + ") = n" + std::to_string(res) + ", observer c" + std::to_string(ci));
    for (size_t k = 0; k < inputs.size(); k++) if (M->nodes[inputs[k]].st != M_PENDING) { for (int c2 : M->nodes[inputs[k]].conts) if (M->conts[c2].kind == K_WHEN && M->conts[c2].when == wi && M->conts[c2].whenIndex == (int)k) fire(c2); }
    auto p = Async::whenAll(M->ints.begin() + firstSlot, M->ints.begin() + lastSlot);
    p.then([ci](const std::vector<int>& r) { MVal v; for (int x : r) v.ints.push_back(x); record_ok(ci, v); }, CustomRej{ci});
    keep(std::move(p), res);
    M->nodes[res].conts.push_back(ci);
    if (M->nodes[res].st != M_PENDING) fire(ci);
}

struct SettleResult { bool threw = false; std::string what; };
static SettleResult op_settle(int node, bool ok, long value, int excId) {
    SettleResult r;
    M->step++;
    M->trace.push_back(std::string(ok ? "resolve" : "reject") + "(n" + std::to_string(node) + (ok ? ", " + std::to_string(value) : ", exc " + std::to_string(excId)) + ")");
    // model first: it does not depend on the implementation
    if (ok) { MVal v; if (M->nodes[node].type == T_INT) v.ints.push_back(value); settle_model(node, M_FULFILLED, v, -1, false); }
    else settle_model(node, M_REJECTED, MVal(), excId, false);
    try {
        if (M->nodes[node].type == T_INT) { if (ok) M->dInt[node].resolve((int)value); else M->dInt[node].reject(TestExc(excId)); }
        else { if (ok) M->dVoid[node].resolve(); else M->dVoid[node].reject(TestExc(excId)); }
    } catch (const std::exception& e) { r.threw = true; r.what = e.what(); }
    catch (...) { r.threw = true; r.what = "unknown exception"; }
    return r;
}

// ---------------------------------------------------------------- one program
static std::string program_text() { std::string s; for (auto& l : M->trace) s += l + "\n"; return s; }
static void run_program(long idx) {
    Rng r(g_opts.seed * 1000211ull + (uint64_t)idx);
    Model model; M = &model;
    int nops = r.range(3, 25);
    set_case(idx, Json().num("i", idx).str("phase", "c11").num("seed", (long long)g_opts.seed).done());
    g_cpu.arm(5.0);
    std::string features;
    bool aborted = false;
    auto pendingRoots = [&]() { std::vector<int> v; for (size_t n = 0; n < model.nodes.size(); n++) if (model.nodes[n].root && model.nodes[n].st == M_PENDING && (model.dInt.count((int)n) || model.dVoid.count((int)n))) v.push_back((int)n); return v; };
    auto thenable = [&]() { std::vector<int> v; for (size_t n = 0; n < model.nodes.size(); n++) if (model.slot.count((int)n) && model.nodes[n].type != T_TUPLE && model.nodes[n].type != T_ANY) v.push_back((int)n); return v; };
    auto intNodes = [&]() { std::vector<int> v; for (size_t n = 0; n < model.nodes.size(); n++) if (model.slot.count((int)n) && model.nodes[n].type == T_INT) v.push_back((int)n); return v; };
    create_root(r.chance(3, 4) ? T_INT : T_VOID, "root");
    model.trace.push_back("create n0");
    for (int op = 0; op < nops && !aborted; op++) {
        int w = r.range(0, 99);
        if (w < 18) { int n = create_root(r.chance(4, 5) ? T_INT : T_VOID, "root"); model.trace.push_back("create n" + std::to_string(n)); }
        else if (w < 55) {
            auto t = thenable(); if (t.empty()) continue;
            int parent = r.pick(t);
            CKind k = (CKind)r.range(0, 3);
            RKind rk = (RKind)r.range(0, 2);
            InnerPlan plan = (InnerPlan)r.range(0, 2);
            try { op_then(parent, k, rk, plan); }
            catch (const std::exception& e) { violation(std::string("c11:attach-throws:then-on-") + SNAME[model.nodes[parent].st], std::string("then() raised in the attaching party: ") + e.what(), Json().num("i", idx).num("seed", (long long)g_opts.seed).str("program", program_text()).done()); aborted = true; continue; }
            features += std::string("T") + KNAME[model.conts.back().kind][0] + RNAME[rk][0] + (model.nodes[parent].st == M_PENDING ? "p" : "s");
        } else if (w < 80) {
            auto p = pendingRoots(); if (p.empty()) continue;
            int n = r.pick(p);
            bool ok = r.chance(3, 5);
            // context for diagnostics: does this node feed a combinator that is already settled?
            std::string ctx = "plain";
            for (int ci : model.nodes[n].conts) if (model.conts[ci].kind == K_WHEN) { const MWhen& wn = model.whens[model.conts[ci].when]; const MNode& res = model.nodes[wn.result];
                if (ctx != "plain" && res.st == M_PENDING) continue;
                ctx = std::string(ok ? "resolve" : "reject") + "-input-of-" + (wn.any ? "whenAny" : wn.range ? "whenAll-range" : "whenAll") + "-already-" + SNAME[res.st]; if (res.st != M_PENDING) break; }
            SettleResult sr = op_settle(n, ok, r.range(-50, 50), 100 + op);
            features += ok ? "S+" : "S-";
            if (sr.threw) {
                violation("c11:settle-throws:" + ctx, "an exception surfaced in the party that settled a promise: " + sr.what, Json().num("i", idx).num("seed", (long long)g_opts.seed).str("program", program_text()).done());
                aborted = true;
            }
        } else if (w < 93) {
            auto in = intNodes(); if (in.empty()) continue;
            int arity = std::min<int>(r.range(1, 4), (int)in.size());
            std::vector<int> inputs; std::set<int> used;
            for (int k = 0; k < arity; k++) { int n = r.pick(in); if (!used.insert(n).second) continue; inputs.push_back(n); }
            bool any = r.chance(1, 2);
            try { op_when(any, inputs); }
            catch (const std::exception& e) { violation(std::string("c11:attach-throws:") + (any ? "whenAny" : "whenAll"), std::string("the combinator raised in the party that builds it: ") + e.what(), Json().num("i", idx).num("seed", (long long)g_opts.seed).str("program", program_text()).done()); aborted = true; continue; }
            features += any ? "Wy" : "Wl"; features += std::to_string(inputs.size());
        } else {
            int total = (int)model.ints.size(); if (total == 0) continue;
            int a = r.range(0, total - 1), b = std::min(total, a + r.range(1, 4));
            try { op_when_range(a, b); }
            catch (const std::exception& e) { violation("c11:attach-throws:whenAll-range", std::string("the combinator raised in the party that builds it: ") + e.what(), Json().num("i", idx).num("seed", (long long)g_opts.seed).str("program", program_text()).done()); aborted = true; continue; }
            features += "Wr" + std::to_string(b - a);
        }
    }
    g_cpu.disarm();
    g_evals++;
    // ------------------------------------------------------------ verdict for this program
    if (!aborted) {
        auto wit = [&]() { return Json().num("i", idx).num("seed", (long long)g_opts.seed).str("program", program_text()).done(); };
        for (size_t ci = 0; ci < model.conts.size(); ci++) {
            const MCont& c = model.conts[ci];
            if (c.kind == K_WHEN) continue;
            std::string what = std::string(KNAME[c.kind]) + "/" + RNAME[c.rk];
            std::string cs = "c" + std::to_string(ci) + " on n" + std::to_string(c.parent);
            const MNode& p = model.nodes[c.parent];
            std::string pk = p.origin;
            if (c.okCalls > 1) violation("c11:fulfil-callback-ran-twice:" + pk, cs + ": fulfilment continuation ran " + std::to_string(c.okCalls) + " times", wit());
            if (c.rejCalls > 1) violation("c11:reject-callback-ran-twice:" + pk, cs + ": rejection continuation ran " + std::to_string(c.rejCalls) + " times", wit());
            if (c.okCalls && c.rejCalls) violation("c11:both-callbacks-ran:" + pk, cs + ": fulfilment and rejection continuation both ran", wit());
            if (p.origin == "whenAny" && p.st != M_PENDING) {
                // "takes the first outcome": inputs that settled within the same settle call are all acceptable as first
                const MWhen* wn = nullptr; for (auto& w : model.whens) if (w.result == c.parent) wn = &w;
                // inputs that were already settled when the combinator was built are all "first" (the statement does not order them)
                int minStep = 1 << 30; for (int in : wn->inputs) if (model.nodes[in].st != M_PENDING) minStep = std::min(minStep, std::max(model.nodes[in].step, wn->createdStep));
                bool okAcc = false, rejAcc = false, abstain = false; std::set<long> vals;
                for (int in : wn->inputs) { const MNode& x = model.nodes[in]; if (x.st == M_PENDING || std::max(x.step, wn->createdStep) != minStep) continue; if (x.st == M_UNKNOWN) abstain = true; else if (x.st == M_FULFILLED) { okAcc = true; vals.insert(x.val.ints[0]); } else rejAcc = true; }
                if (abstain) continue;
                if (c.okCalls + c.rejCalls != 1) violation("c11:any-of-outcome-count", cs + ": any-of delivered " + std::to_string(c.okCalls + c.rejCalls) + " outcomes", wit());
                else if (c.okCalls && !(okAcc && c.seenVal.ints.size() == 1 && vals.count(c.seenVal.ints[0]))) violation("c11:any-of-not-first-outcome", cs + ": any-of fulfilled with something that is not the first outcome", wit());
                else if (c.rejCalls && !rejAcc) violation("c11:any-of-not-first-outcome", cs + ": any-of rejected although the first outcome is a fulfilment", wit());
                continue;
            }
            if (p.st == M_PENDING) { if (c.okCalls || c.rejCalls) violation("c11:callback-on-pending:" + pk, cs + ": a continuation ran although its promise was never settled", wit()); continue; }
            if (c.fulfilNeverAllowed && c.okCalls) violation("c11:fulfil-after-rejection:" + pk, cs + ": a fulfilment continuation ran downstream of a rejection", wit());
            if (c.expOk == 1) {
                if (c.okCalls != 1) violation("c11:fulfil-callback-missing:" + pk, cs + ": promise is fulfilled but its fulfilment continuation ran " + std::to_string(c.okCalls) + " times", wit());
                else if (!(c.seenVal == c.expVal)) violation("c11:fulfil-value:" + pk, cs + ": fulfilment continuation received another value than the one produced", wit());
                if (c.rejCalls) violation("c11:reject-on-fulfilled:" + pk, cs + ": rejection continuation ran for a fulfilled promise", wit());
            } else if (c.expOk == 0 && c.okCalls) violation("c11:fulfil-on-rejected:" + pk, cs + ": fulfilment continuation ran although the promise is not fulfilled", wit());
            if (c.expRej == 1) {
                if (c.rejCalls != 1) violation("c11:reject-callback-missing:" + pk, cs + ": promise is rejected but its rejection continuation ran " + std::to_string(c.rejCalls) + " times", wit());
                else if (c.expExc >= 0) {
                    if (c.seenExc != c.expExc) violation("c11:reject-exception:" + pk, cs + ": rejection continuation received exception " + std::to_string(c.seenExc) + ", expected " + std::to_string(c.expExc), wit());
                    auto it = model.excPtr.find(c.expExc);
                    if (it == model.excPtr.end()) model.excPtr[c.expExc] = c.seenPtr;
                    else if (!(it->second == c.seenPtr)) violation("c11:reject-not-same-exception-object:" + pk, cs + ": the forwarded rejection is not the same exception object", wit());
                }
            } else if (c.expRej == 0 && c.rejCalls) violation("c11:reject-on-not-rejected:" + pk, cs + ": rejection continuation ran although the promise is not rejected", wit());
        }
        for (size_t n = 0; n < model.nodes.size(); n++) {
            const MNode& nd = model.nodes[n];
            auto it = model.realOf.find((int)n);
            if (it == model.realOf.end() || nd.st == M_UNKNOWN || nd.origin == "whenAny") continue;
            bool f = it->second->isFulfilled(), rj = it->second->isRejected();
            if ((nd.st == M_FULFILLED) != f || (nd.st == M_REJECTED) != rj)
                violation("c11:state:" + nd.origin, "n" + std::to_string(n) + " (" + nd.origin + ") is " + (f ? "fulfilled" : rj ? "rejected" : "pending") + ", the statement makes it " + SNAME[nd.st], wit());
        }
    }
    std::sort(features.begin(), features.end());
    std::string shape; { std::map<std::string, int> ff; for (size_t i = 0; i + 1 < features.size(); i += 2) ff[features.substr(i, 2)]++; for (auto& kv : ff) shape += kv.first + std::to_string(std::min(kv.second, 3)); }
    g_distinct.add(program_text());
    count("programs");
    count("callbacks", (long)model.conts.size());
    count("combinators", (long)model.whens.size());
    if (g_samples_left > 0 && (idx % 1009) == 11) { g_samples_left--; sample(Json().num("i", idx).str("program", program_text()).done()); }
    M = nullptr;
}

// ---------------------------------------------------------------- anonymous chains
// The program keeps NO Promise object: chains are built from temporaries, the root's Deferred is dropped right after it has
// been used, and inner promises returned by continuations are settled only afterwards.  Every outcome must still be delivered
// exactly once: what keeps a derived promise alive is the framework's business.
struct AnonLink { int kind; /*0 value, 1 promise*/ int plan; /*0 pending 1 resolved 2 rejected*/ int rk; /*0 throw 1 custom*/ int ok = 0, rej = 0; long seenVal = 0; int seenExc = -1; Async::Deferred<int> inner; bool innerMade = false; };
static void run_anon_chain(long idx) {
    Rng r(g_opts.seed * 7000003ull + (uint64_t)idx);
    set_case(idx, Json().num("i", idx).str("phase", "c11-anon").num("seed", (long long)g_opts.seed).done());
    int L = r.range(1, 4);
    auto links = std::make_shared<std::vector<AnonLink>>((size_t)L);
    std::string text = "anonymous chain:";
    for (int i = 0; i < L; i++) { AnonLink& l = (*links)[(size_t)i]; l.kind = r.chance(2, 3) ? 1 : 0; l.plan = r.chance(2, 3) ? 0 : r.range(1, 2); l.rk = r.chance(3, 4) ? 0 : 1;
        text += std::string(" then(") + (l.kind ? (l.plan == 0 ? "promise-pending" : l.plan == 1 ? "promise-resolved" : "promise-rejected") : "value") + "," + (l.rk ? "custom" : "throw") + ")"; }
    int finalOk = 0, finalRej = 0; long finalVal = 0; int finalExc = -1;
    bool rootOk = r.chance(2, 3); int rootVal = r.range(-50, 50); bool keepResolverUntilEnd = r.chance(1, 3);
    std::vector<int> innerOutcome((size_t)L); for (auto& x : innerOutcome) x = r.chance(2, 3) ? 1 : 0;   // 1 fulfil, 0 reject
    text += std::string("; root ") + (rootOk ? "resolved" : "rejected") + (keepResolverUntilEnd ? ", resolver kept" : ", resolver dropped before the inner promises settle");
    auto* dRoot = new Async::Deferred<int>();
    g_cpu.arm(5.0);
    {
        Async::Promise<int> root([&](Async::Deferred<int> d) { *dRoot = std::move(d); });
        auto cont = [links](int i) { return [links, i](int v) -> Async::Promise<int> { AnonLink& l = (*links)[(size_t)i]; l.ok++; l.seenVal = v;
                if (l.plan == 1) return Async::Promise<int>::resolved(v + 7);
                if (l.plan == 2) return Async::Promise<int>::rejected(TestExc(9000 + i));
                return Async::Promise<int>([&l](Async::Deferred<int> d) { l.inner = std::move(d); l.innerMade = true; }); }; };
        auto vcont = [links](int i) { return [links, i](int v) { AnonLink& l = (*links)[(size_t)i]; l.ok++; l.seenVal = v; return v + 1; }; };
        auto rejc = [links](int i) { return [links, i](std::exception_ptr p) { AnonLink& l = (*links)[(size_t)i]; l.rej++; l.seenExc = exc_id(p); if (l.rk == 0) Async::Throw(p); }; };
        // build link by link from temporaries; `cur` is overwritten, so no handle to an intermediate promise survives
        Async::Promise<int> cur = (*links)[0].kind ? root.then(cont(0), rejc(0)) : root.then(vcont(0), rejc(0));
        for (int i = 1; i < L; i++) cur = (*links)[(size_t)i].kind ? cur.then(cont(i), rejc(i)) : cur.then(vcont(i), rejc(i));
        cur.then([&](int v) { finalOk++; finalVal = v; }, [&](std::exception_ptr p) { finalRej++; finalExc = exc_id(p); });
    }   // root, cur: gone
    try {
        if (rootOk) dRoot->resolve(rootVal); else dRoot->reject(TestExc(77));
        if (!keepResolverUntilEnd) { delete dRoot; dRoot = nullptr; }
        // settle pending inner promises as they appear (each one unblocks the next link)
        for (int i = 0; i < L; i++) { AnonLink& l = (*links)[(size_t)i]; if (l.kind == 1 && l.plan == 0 && l.innerMade) { if (innerOutcome[(size_t)i]) l.inner.resolve((int)(l.seenVal + 7)); else l.inner.reject(TestExc(8000 + i)); } }
    } catch (const std::exception& e) { violation("c11:anon:settle-throws", std::string("an exception surfaced in the settling party of an anonymous chain: ") + e.what(), Json().num("i", idx).num("seed", (long long)g_opts.seed).str("program", text).done()); }
    delete dRoot;
    g_cpu.disarm();
    g_evals++;
    // sequential expectation
    bool isVal = rootOk; long val = rootVal; int exc = 77; bool abstain = false;
    auto wit = [&]() { return Json().num("i", idx).num("seed", (long long)g_opts.seed).str("program", text).done(); };
    for (int i = 0; i < L && !abstain; i++) {
        AnonLink& l = (*links)[(size_t)i]; std::string ln = "link " + std::to_string(i) + " of '" + text + "'";
        if (isVal) {
            if (l.ok != 1 || l.rej != 0) { violation(std::string("c11:anon:fulfil-callback-") + (l.ok == 0 ? "missing" : "count") + (l.kind && i > 0 && (*links)[(size_t)i - 1].kind && (*links)[(size_t)i - 1].plan == 0 ? ":after-pending-inner" : ""), ln + ": fulfilment continuation ran " + std::to_string(l.ok) + " times, rejection continuation " + std::to_string(l.rej), wit()); abstain = true; break; }
            if (l.seenVal != val) { violation("c11:anon:fulfil-value", ln + ": received " + std::to_string(l.seenVal) + " want " + std::to_string(val), wit()); abstain = true; break; }
            if (l.kind == 0) val = val + 1;
            else if (l.plan == 1) val = val + 7;
            else if (l.plan == 2) { isVal = false; exc = 9000 + i; }
            else if (innerOutcome[(size_t)i]) val = val + 7; else { isVal = false; exc = 8000 + i; }
        } else {
            if (l.rej != 1 || l.ok != 0) { violation(std::string("c11:anon:reject-callback-") + (l.rej == 0 ? "missing" : "count"), ln + ": rejection continuation ran " + std::to_string(l.rej) + " times, fulfilment continuation " + std::to_string(l.ok), wit()); abstain = true; break; }
            if (l.seenExc != exc) { violation("c11:anon:reject-exception", ln + ": received exception " + std::to_string(l.seenExc) + " want " + std::to_string(exc), wit()); abstain = true; break; }
            if (l.rk != 0) abstain = true;   // a rejection handler that does not rethrow: the statement is silent about what follows
        }
    }
    if (!abstain) {
        if (isVal && (finalOk != 1 || finalRej != 0 || finalVal != val)) violation("c11:anon:final-outcome:fulfilled", "'" + text + "': the last continuation saw ok=" + std::to_string(finalOk) + " rej=" + std::to_string(finalRej) + " value " + std::to_string(finalVal) + ", want one fulfilment with " + std::to_string(val), wit());
        if (!isVal && (finalRej != 1 || finalOk != 0 || finalExc != exc)) violation("c11:anon:final-outcome:rejected", "'" + text + "': the last continuation saw ok=" + std::to_string(finalOk) + " rej=" + std::to_string(finalRej) + " exception " + std::to_string(finalExc) + ", want one rejection with " + std::to_string(exc), wit());
    }
    g_distinct.add(text);
    count("anonymous_chains");
    if (g_samples_left > 0 && (idx % 1009) == 13) { g_samples_left--; sample(Json().num("i", idx).str("program", text).done()); }
}

static bool g_finished = false;
static void finish_output(bool died) {
    if (g_finished) return;
    g_finished = true;
    g_distinct.flush();
    Json s; s.str("t", died ? "partial" : "sum").num("evaluations", g_evals).num("san_reports", g_san_reports);
    Json c; for (auto& kv : g_counts) c.num(kv.first, kv.second);
    s.raw("counts", c.done());
    emit(s.done());
}
#if defined(__SANITIZE_ADDRESS__)
extern "C" void __sanitizer_set_death_callback(void (*)(void));
static void on_death() { finish_output(true); }
#endif
int main(int argc, char** argv) {
    g_opts = parse_opts(argc, argv);
#if defined(__SANITIZE_ADDRESS__)
    __sanitizer_set_death_callback(on_death);
#endif
    install_handlers();
    g_cpu.init();
    g_skip_until = g_opts.num("skip", -1);
    if (g_opts.mode == "replay") { g_opts.seed = (uint64_t)g_opts.num("seed", 1); { long ix = g_opts.num("index", 0); if (ix % 8 == 5) run_anon_chain(ix); else run_program(ix); } printf("%s", ""); finish_output(false); return 0; }
    for (long i = g_opts.shard; i < g_opts.cases * g_opts.nshards; i += g_opts.nshards) {
        if (i <= g_skip_until) continue;
        if (i % 8 == 5) run_anon_chain(i); else run_program(i);
    }
    finish_output(false);
    return 0;
}
