# Socket-level checks: C06/C07 (harness/writes.cc), others added below.
import os, sys, json, shutil
sys.path.insert(0, os.path.join(os.path.dirname(os.path.abspath(__file__)), "..", "lib"))
import vlib

def _finish(v, work, counters, distinct, samples, stats, rule, extra=None):
    cov = dict(evaluations=int(counters.get("evaluations", 0)), distinct_nontrivial=len(distinct), rule=rule, samples=samples[:8],
               monitor_counts=counters.get("counts", {}), **stats)
    if extra:
        cov.update(extra)
    v.coverage.update(cov)
    rc = v.finish()
    shutil.rmtree(work, ignore_errors=True)
    return rc

def _asan_pass(v, work, harness, args, nshards, tier, stats, distinct, tag="as"):
    """The same live workload a second time in the ASan+UBSan flavour with leak detection on: what the behavioural oracle cannot see
    (reads past a buffer that is being resumed, a response buffer outgrown, state used after its release, unreachable state)."""
    abin = vlib.build_harness(harness, "asan")
    aenv = dict(vlib.SAN_ENV_EXPLORE, ASAN_OPTIONS=vlib.SAN_ENV_EXPLORE["ASAN_OPTIONS"].replace("detect_leaks=0", "detect_leaks=1"))
    res = vlib.run_resumable(abin, args, nshards, timeout=400 if tier == "quick" else 7200, work=work, env=aenv, tag=tag)
    c, d, s, st = vlib.collect_runs(v, res, judge_report=lambda rep: rep["tool"] != "lsan" or rep.get("in_repo"))
    distinct |= d
    stats["asan_lsan_pass"] = dict(evaluations=int(c.get("evaluations", 0)), counts=c.get("counts", {}), **st)

def _late_loops_pass(v, work, harness, args, nshards, tier, stats, distinct, tag="ll", delay=40, only_prefix=None):
    """The same live workload once more with every epoll_wait of the process preceded by a pause of 0..delay ms (interposed, harness/live.h): the
    loop threads come back to their pollers late, as on a busy machine, and find several readiness changes in one poll result - input together
    with the housekeeping tick, a connection readable and writable at once, batches of new peers and of queued writes."""
    pbin = vlib.build_harness(harness, "plain")
    res = vlib.run_resumable(pbin, list(args) + ["--poll-delay", str(delay)], nshards, timeout=400 if tier == "quick" else 7200, work=work, tag=tag)
    c, d, s, st = vlib.collect_runs(v, res, only_prefix=only_prefix) if only_prefix else vlib.collect_runs(v, res)
    distinct |= d
    cnt = c.get("counts", {})
    stats["late_loop_threads_pass"] = dict(evaluations=int(c.get("evaluations", 0)), poll_delays_injected=int(cnt.get("poll_delays_injected", 0)), delay_ms_max=delay, **st)
    if int(c.get("evaluations", 0)) > 0 and "poll_delays_injected" in cnt and int(cnt["poll_delays_injected"]) == 0:
        v.add_inconclusive("late-loop-threads pass: no epoll_wait was ever delayed")

def run_c06(tier, seed):
    v = vlib.Verdict("C06", tier, seed, level="fault_enumeration")
    work = vlib.scratch_dir("C06")
    binary = vlib.build_harness("writes", "plain")
    nsh = 8
    res = vlib.run_resumable(binary, ["--prop", "c06", "--seed", str(seed), "--cases", str(60 if tier == "quick" else 4000), "--depth", "4" if tier == "quick" else "6"],
                             nsh, timeout=300 if tier == "quick" else 7200, work=work)
    counters, distinct, samples, stats = vlib.collect_runs(v, res)
    # writes queued from a foreign thread for live and vanished peers, and bursts of them while the worker is busy (shared with C13's server-level part)
    res2 = vlib.run_resumable(binary, ["--prop", "c13s", "--kp", "c06", "--seed", str(seed + 17), "--cases", str(4 if tier == "quick" else 100)], 4,
                              timeout=300 if tier == "quick" else 7200, work=work, tag="q")
    c2, d2, s2, st2 = vlib.collect_runs(v, res2)
    distinct |= d2
    stats["cross_thread_write_queue"] = dict(scenarios=int(c2.get("evaluations", 0)), counts=c2.get("counts", {}), **st2)
    _asan_pass(v, work, "writes", ["--prop", "c06", "--seed", str(seed + 29), "--cases", str(10 if tier == "quick" else 600), "--depth", "3" if tier == "quick" else "5"], 4, tier, stats, distinct)
    _late_loops_pass(v, work, "writes", ["--prop", "c06", "--seed", str(seed + 43), "--cases", str(10 if tier == "quick" else 600), "--depth", "3" if tier == "quick" else "5"], 4, tier, stats, distinct)
    v.assumptions += ["socket outcomes are injected by link-time interposition of send/sendfile in the harness binary (no change to the repository)",
                      "the 'always fulfilled' half is judged at a logical point: a marker write queued after everything else has arrived at the peer"]
    return _finish(v, work, counters, distinct, samples, stats,
                   "per connection 1-6 writes (memory/file buffers, loop thread or foreign thread) on a raw Tcp::Listener+Transport; outcomes of successive socket write calls scripted: EVERY placement of {full, short(1), short(1500), would-block} over the first K calls for 5 write shapes (K=4 quick, 6 thorough), seeded random scripts up to 24 calls with sizes {1,4095,4096,4097,64Ki,1Mi,random}, and runs with real kernel back-pressure (4 KiB receive buffer, pausing reader). Every buffer is a tagged stream so the receiver locates loss/duplication/reordering byte-exactly; per-promise settle count, value, and bytes accepted at settle time. distinct = (write-shape, fault string, back-pressure) classes")

def run_c07(tier, seed):
    v = vlib.Verdict("C07", tier, seed, level="fault_enumeration")
    work = vlib.scratch_dir("C07")
    binary = vlib.build_harness("writes", "plain")
    nsh = 4
    res = vlib.run_resumable(binary, ["--prop", "c07", "--seed", str(seed), "--cases", str(3 if tier == "quick" else 60)],
                             nsh, timeout=300 if tier == "quick" else 7200, work=work)
    counters, distinct, samples, stats = vlib.collect_runs(v, res)
    _late_loops_pass(v, work, "writes", ["--prop", "c07", "--seed", str(seed + 47), "--cases", str(2 if tier == "quick" else 30)], 4, tier, stats, distinct, delay=25)
    v.assumptions += ["the blocked state is real kernel back-pressure (2 KiB receive buffer, peer not reading); busy-waiting is decided by COUNTING socket write attempts on the blocked descriptor (interposed send), not by wall-clock",
                      "other connections are given a generous, load-scaled bound (5 s x load factor) to be answered; the blocked peer is released only after they were answered"]
    return _finish(v, work, counters, distinct, samples, stats,
                   "1-worker endpoint; connection A requests 4-24 MiB with a 2 KiB receive buffer and does not read (0-3 further writes queued behind); 1-3 other connections issue requests before / during / repeatedly during the block; after 0.2-1.1 s A reads everything (byte-exact tagged body); variants: streamed response flushed per chunk, file response, input from the blocked peer during the stall, a write chained on the blocked one, and a slow streamed response whose client starts reading while the handler is still flushing (what was parked is completed by one of the handler's own flushes). distinct = (size, queued writes, other connections, arrival pattern, stall length)")

def run_c08(tier, seed):
    v = vlib.Verdict("C08", tier, seed, level="fault_enumeration")
    work = vlib.scratch_dir("C08")
    binary = vlib.build_harness("server", "plain")
    nsh = 8
    res = vlib.run_resumable(binary, ["--prop", "c08", "--seed", str(seed), "--cases", str(12 if tier == "quick" else 300)], nsh,
                             timeout=300 if tier == "quick" else 7200, work=work)
    counters, distinct, samples, stats = vlib.collect_runs(v, res)
    # heap census: bytes held through operator new at quiescence after identical intervals of scripted connections (server_heap.h)
    resh = vlib.run_resumable(binary, ["--prop", "c08h", "--seed", str(seed + 3), "--cases", str(1 if tier == "quick" else 12), "--census-n", "240" if tier == "quick" else "600"], 4,
                              timeout=300 if tier == "quick" else 7200, work=work, tag="h")
    ch, dh, sh, sth = vlib.collect_runs(v, resh)
    distinct |= dh
    stats["heap_census"] = dict(servers=int(ch.get("evaluations", 0)), counts=ch.get("counts", {}), samples=sh[:4], **sth)
    # the same lifecycle rounds under AddressSanitizer + UBSan + LeakSanitizer: per-connection state released twice or used after its
    # release is a report, state that becomes unreachable without being released is a leak report when the process ends
    abin = vlib.build_harness("server", "asan")
    aenv = dict(vlib.SAN_ENV_EXPLORE, ASAN_OPTIONS=vlib.SAN_ENV_EXPLORE["ASAN_OPTIONS"].replace("detect_leaks=0", "detect_leaks=1"))
    resa = vlib.run_resumable(abin, ["--prop", "c08", "--seed", str(seed + 5), "--cases", str(3 if tier == "quick" else 40)], 4,
                              timeout=400 if tier == "quick" else 7200, work=work, env=aenv, tag="a")
    ca, da, sa, sta = vlib.collect_runs(v, resa, judge_report=lambda rep: rep["tool"] != "lsan" or rep.get("in_repo"))
    distinct |= da
    stats["asan_lsan_pass"] = dict(rounds=int(ca.get("evaluations", 0)), connections=int(ca.get("counts", {}).get("connections", 0)), **sta)
    _late_loops_pass(v, work, "server", ["--prop", "c08", "--seed", str(seed + 53), "--cases", str(3 if tier == "quick" else 60)], 4, tier, stats, distinct)
    v.assumptions += ["'exactly once' is decided at quiescence: all clients gone, accepted descriptors released and /proc/self/fd back at the idle baseline within a bounded, load-scaled wait",
                      "heap census: one-off growth (hash-table buckets, vector capacity, pools) is legitimate and not judged; only growth proportional to the number of connections served, confirmed over a second window, is",
                      "accept4/close are interposed at link time to own the set of accepted descriptors; the HTTP endpoint path observes onRequest/onDisconnection only (Http::Handler::onConnection is private)"]
    return _finish(v, work, counters, distinct, samples, stats,
                   "rounds of 1-24 concurrent scripted clients against a raw Tcp::Listener (own Tcp::Handler, spy transport exposing the peer table) or an Http::Endpoint (1 s idle time-outs): connect/close, partial request then close, full exchange, half-close then read to EOF, RST, RST with a 4 MiB response pending, silence until the idle time-out (before/after an exchange), handlers that arm timeoutAfter and answer first, keep-alive sequences, slow requests that keep the worker busy while bytes and FIN (or a half-close) arrive together, a streamed response (6 x 20000-byte flushed chunks) reset by the client in mid-stream, long-poll handlers that park the ResponseWriter with a 250 ms response time-out while the client leaves before it expires, or stays until the timer has fired and the framework's onTimeout has answered 408. Per-peer callback automaton, accept4/close ownership, descriptor census, peer table, service afterwards; the same rounds a second time under ASan+UBSan+LeakSanitizer (double release, use after release, unreachable per-connection state); heap census: on 4 server variants (raw listener, endpoint with long / 1 s time-outs, endpoint with a small request limit) the bytes held through operator new (exact, replaced operator new/delete) are read at quiescence after each of 4(+4) identical intervals of N scripted connections (12 behaviours incl. resets with a pending 1 MiB response, refused requests, streamed responses, armed response timers, idle time-outs) - growth of >= 4 bytes per connection that continues over two windows is a violation. distinct = (server kind, workers, behaviour set)")

def run_c14(tier, seed):
    v = vlib.Verdict("C14", tier, seed, level="fault_enumeration")
    work = vlib.scratch_dir("C14")
    binary = vlib.build_harness("server", "plain")
    res = vlib.run_resumable(binary, ["--prop", "c14s", "--seed", str(seed), "--cases", str(60 if tier == "quick" else 1500)], 10,
                             timeout=300 if tier == "quick" else 7200, work=work, tag="s")
    counters, distinct, samples, stats = vlib.collect_runs(v, res)
    res2 = vlib.run_resumable(binary, ["--prop", "c14t", "--seed", str(seed), "--cases", str(2 if tier == "quick" else 12)], 8,
                              timeout=300 if tier == "quick" else 7200, work=work, tag="t")
    c2, d2, s2, st2 = vlib.collect_runs(v, res2)
    distinct |= d2
    _asan_pass(v, work, "server", ["--prop", "c14s", "--seed", str(seed + 31), "--cases", str(15 if tier == "quick" else 400)], 4, tier, stats, distinct)
    _late_loops_pass(v, work, "server", ["--prop", "c14s", "--seed", str(seed + 59), "--cases", str(15 if tier == "quick" else 400)], 4, tier, stats, distinct)
    counters["evaluations"] = counters.get("evaluations", 0) + c2.get("evaluations", 0)
    cc = counters.setdefault("counts", {})
    for k, val in c2.get("counts", {}).items():
        cc[k] = cc.get(k, 0) + val
    v.assumptions += ["timing cases use time-outs of 1-3 s, stalls of 0.3-0.6 x T (must pass) and judge 408 only within T + 0.5 s scan period + 1.5 s load-scaled slack; nothing is judged inside the scan band",
                      "server-side read segmentation is forced by interposing recv (per-descriptor caps), not left to TCP"]
    return _finish(v, work, counters, distinct, samples + s2, stats,
                   "size: limits {100,300,512,4096,8192} x total request sizes {limit-1, limit, limit+1, 2*limit, random near} x body kinds (none/Content-Length/chunked) x server read caps (whole, bytewise, random, boundary exactly at the limit) x 1 or 4 workers, exact byte counts; time-outs: (header,body) in {(1,2),(2,1),(1,1),(2,3)} s x 8 stall points (none, after connect, inside request line, inside headers, inside body, slow-but-within, second keep-alive request after an idle gap, body after the header time-out but within the body time-out, silent connections on descriptor numbers last used by a peer that left with its 408 still queued behind blocked output). distinct = (limit, relation, kind, segmentation, workers) and (setting, stall point, workers)")

def run_c05(tier, seed):
    v = vlib.Verdict("C05", tier, seed, level="exploration")
    work = vlib.scratch_dir("C05")
    binary = vlib.build_harness("server", "plain")
    res = vlib.run_resumable(binary, ["--prop", "c05", "--seed", str(seed), "--cases", str(120 if tier == "quick" else 6000)], 12,
                             timeout=300 if tier == "quick" else 7200, work=work)
    counters, distinct, samples, stats = vlib.collect_runs(v, res)
    _asan_pass(v, work, "server", ["--prop", "c05", "--seed", str(seed + 37), "--cases", str(25 if tier == "quick" else 1000)], 6, tier, stats, distinct)
    _late_loops_pass(v, work, "server", ["--prop", "c05", "--seed", str(seed + 61), "--cases", str(25 if tier == "quick" else 1000)], 6, tier, stats, distinct)
    try:
        from checks import client as clientmod
        extra = clientmod.c05_client_requests(v, tier, seed, work)
        if extra:
            stats["client_requests"] = extra
    except (ImportError, AttributeError):
        pass
    v.assumptions += ["bytes on the peer socket are judged by an independent RFC 7230 message reader (harness/live.h), not by Pistache's parser",
                      "handler-set Content-Length / Transfer-Encoding are framework-managed and not generated; the response size limit is judged for fixed-length responses only (as the statement says)"]
    return _finish(v, work, counters, distinct, samples, stats,
                   "handler recipes: 22 status codes x 0-6 typed headers x 0-4 cookies x fixed bodies (0-3 bytes, every size around 512*2^k +-, random up to 70 KB) or streams of 0-8 chunks (sizes across hex-length changes 15/16/17, 255/256/257, 4095/4096/4097, 65535/65536/65537, empty chunk, integer and literal operator<< values) with/without flush after each chunk; captured bytes checked for grammar, exactly-once headers/cookies, Content-Length = body, decoded chunks = data written, clean next exchange, getResponseSize() = bytes emitted; limit differential: the same recipe with maxResponseSize in {T-1, T, T+1, head-1, head, head+1}. distinct = recipe shape classes")

def c10_live(v, tier, seed, work):
    binary = vlib.build_harness("server", "plain")
    res = vlib.run_resumable(binary, ["--prop", "c10l", "--seed", str(seed), "--cases", str(15 if tier == "quick" else 500)], 8,
                             timeout=300 if tier == "quick" else 7200, work=work, tag="l")
    c, d, s, st = vlib.collect_runs(v, res)
    return dict(live_probes=int(c.get("evaluations", 0)), distinct=len(d), **st)

def _tsan_judge(rep):
    return rep["tool"] != "tsan" or rep.get("in_repo")

def run_c09(tier, seed):
    v = vlib.Verdict("C09", tier, seed, level="exploration")
    work = vlib.scratch_dir("C09")
    binary = vlib.build_harness("mt", "tsan", opt="-O1")
    nproc = 4   # each process runs up to 8 workers + 12 clients: keep real parallelism
    res = vlib.run_resumable(binary, ["--seed", str(seed), "--cases", str(11 if tier == "quick" else 132), "--maxreq", "120" if tier == "quick" else "400"], nproc,
                             timeout=300 if tier == "quick" else 7200, work=work, env=vlib.SAN_ENV_EXPLORE)
    counters, distinct, samples, stats = vlib.collect_runs(v, res, judge_report=_tsan_judge)
    # connection storm without the sanitizer (speed): 4-10 client threads x 300 short-lived connections per round, a third of
    # them leaving before their answer is written, descriptor numbers reused at a high rate
    pbin = vlib.build_harness("mt", "plain")
    res2 = vlib.run_resumable(pbin, ["--prop", "storm", "--seed", str(seed + 7), "--cases", str(4 if tier == "quick" else 80)], 8,
                              timeout=300 if tier == "quick" else 7200, work=work, tag="storm")
    c2, d2, s2, st2 = vlib.collect_runs(v, res2)
    distinct |= d2
    stats["connection_storm"] = dict(rounds=int(c2.get("evaluations", 0)), counts=c2.get("counts", {}), **st2)
    _late_loops_pass(v, work, "mt", ["--prop", "storm", "--seed", str(seed + 67), "--cases", str(1 if tier == "quick" else 20)], 4, tier, stats, distinct, delay=30)
    v.assumptions += ["interleavings are whatever the OS scheduler produces under ThreadSanitizer; each configuration is run in several processes (race reports vary from run to run)",
                      "ThreadSanitizer reports without a Pistache frame (harness or libstdc++ internals) are not judged; shutdown()/destruction gets a 30 s x load bound"]
    return _finish(v, work, counters, distinct, samples, stats,
                   "endpoint with w in {1,2,4,8} workers sharing one Rest::Router (routes under GET/POST/PUT/DELETE/PATCH/OPTIONS/HEAD) x 1-12 keep-alive client threads x 5-120 requests hitting every method table, 405 (other method registered) and 404, handlers answering from a foreign thread; each response's tag must be the function of its request and no unsolicited bytes may arrive; shutdown() fired after the load, idle with connections open, mid-load, with slow handlers in flight, before any load, twice, after 2w+2 silent connections (nothing / partial head / partial body, opened together so that they expire in one tick on every worker) each got exactly one 408 and EOF from a 1 s read time-out, while accept4 fails with EMFILE (soft descriptor limit lowered, a connection pending), while requests are in flight whose handlers finish only after shutdown() has returned (held at a gate), and from inside a request handler (on a worker thread); one configuration in eleven is served by the blocking Endpoint::serve() on the thread that created and initialised the endpoint; connections for every worker opened the moment the endpoint is up; connection churn beside the keep-alive clients, a third of the short-lived connections leaving without waiting for their answer (answers written late by a slow handler or from a foreign thread), plus a storm stage without the sanitizer (32 rounds of 4-10 threads x 300 connections) in which every answer that is read must belong to the request sent on that connection, each round preceded by a connection burst while every worker is inside a handler and by a slow-acceptor phase (acceptor delayed right after the hand-over, 12 MiB answers to late readers must arrive completely); afterwards the port must refuse and /proc/self/task be back at the baseline. Oracle for shared state: ThreadSanitizer. distinct = (workers, clients, shutdown point)")

def run_c15(tier, seed):
    v = vlib.Verdict("C15", tier, seed, level="exploration")
    work = vlib.scratch_dir("C15")
    binary = vlib.build_harness("client", "plain")
    res = vlib.run_resumable(binary, ["--prop", "c15", "--seed", str(seed), "--cases", str(9 if tier == "quick" else 225)], 12,
                             timeout=600 if tier == "quick" else 7200, work=work)
    counters, distinct, samples, stats = vlib.collect_runs(v, res, only_prefix="c15:")
    _late_loops_pass(v, work, "client", ["--prop", "c15", "--seed", str(seed + 73), "--cases", str(3 if tier == "quick" else 60)], 6, tier, stats, distinct, delay=15, only_prefix="c15:")
    v.assumptions += ["the server is a scripted raw TCP server written in the harness; every request/response carries a unique tag",
                      "a batch is judged when all promises are settled or the server has been idle for 3 s x load; every batch runs in a forked child under a 25 s x load watchdog (a wedged client is a witness)",
                      "Experimental::Client has no pipelining and cannot resume a partial send: request bodies stay below the socket buffer"]
    return _finish(v, work, counters, distinct, samples, stats,
                   "batches of 1-64 requests issued at once - from one application thread or from 2-6 threads released together - through one Experimental::Client (1-4 threads, maxConnectionsPerHost 1-8, so queueing behind the limit is the norm); in all-answering batches 400 further stampede rounds follow in which 3-10 threads (half of the time more than there are connections) call send() at the same instant on an idle pool (requests built beforehand, spin barrier); to a scripted server whose behaviour per request is immediate / delayed / byte-dribbled / chunked / close-after-response / never-answered (client time-out 400 ms) / answered after the client's time-out, plus a scripted batch in which a late answer and the expiry of another request's time-out reach the client in one poll result, a run of 140 time-outs in a row on one connection followed by answered requests, and one client talking to TWO hosts (one connection each, requests queued for both) while one host never answers: the other host's queue has to be served before that request times out (judged by the order of the two events); per-promise settle counters, echoed tags, server-side request log with connection ids, peak simultaneous connections. distinct = (threads, limit, over-limit?, scenario, batch size class)")

def run_c02(tier, seed):
    v = vlib.Verdict("C02", tier, seed, level="exploration")
    work = vlib.scratch_dir("C02")
    binary = vlib.build_harness("client", "plain")
    res = vlib.run_resumable(binary, ["--prop", "c02", "--seed", str(seed), "--cases", str(200 if tier == "quick" else 8000)], 8,
                             timeout=300 if tier == "quick" else 7200, work=work)
    counters, distinct, samples, stats = vlib.collect_runs(v, res)
    # the same round trips (reads of both ends cut short) under ASan+UBSan+LeakSanitizer: what the client does with its receive buffer, its
    # parser and its connection objects while a response arrives in pieces is invisible to the comparison of the parsed message
    _asan_pass(v, work, "client", ["--prop", "c02", "--seed", str(seed + 41), "--cases", str(40 if tier == "quick" else 1500)], 4, tier, stats, distinct)
    _late_loops_pass(v, work, "client", ["--prop", "c02", "--seed", str(seed + 71), "--cases", str(40 if tier == "quick" else 1500)], 4, tier, stats, distinct, delay=20)
    v.assumptions += ["components that need no escaping (token characters in names and query, arbitrary octets in bodies); framework additions (Host, User-Agent, Content-Length, Connection, empty Cookie header) are allowed",
                      "request bodies <= 16 KiB (the experimental client cannot resume a partial send)"]
    return _finish(v, work, counters, distinct, samples, stats,
                   "real Experimental::Client <-> real Http::Endpoint on loopback: requests built with RequestBuilder (9 methods, path, 0-4 query parameters, 0-5 typed headers out of 10 types, 0-6 cookies, bodies 0..16000 arbitrary octets incl. empty / 1 byte / ending in CR) compared with what onRequest sees; responses (20 status codes, typed headers, cookies with/without attributes, fixed bodies 0..20000 octets or streams of 0-8 chunks across hex-length boundaries) compared with the Http::Response delivered to the client promise; in two thirds of the round trips every read of BOTH ends (server reading the request, client reading the response) is cut to at most 1..cap bytes, cap in {1,2,5,23,300,2000} (interposed recv: the segmentation that TCP on loopback never produces by itself). distinct = (method, query, headers, cookies, body class, response kind, chunks, status class)")

def c05_client_requests(v, tier, seed, work):
    binary = vlib.build_harness("client", "plain")
    res = vlib.run_resumable(binary, ["--prop", "c15", "--seed", str(seed + 50), "--cases", str(2 if tier == "quick" else 40)], 6,
                             timeout=600 if tier == "quick" else 7200, work=work, tag="cr")
    c, d, s, st = vlib.collect_runs(v, res, only_prefix="c05:")
    return dict(client_requests_parsed=int(c.get("counts", {}).get("requests", 0)), **st)

def run(pid, tier, seed, replay=None):
    return {"C15": run_c15, "C02": run_c02, "C09": run_c09, "C05": run_c05, "C06": run_c06, "C07": run_c07, "C08": run_c08, "C14": run_c14}[pid](tier, seed)
