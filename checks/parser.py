# C01 (segmentation independence), C04 (successive messages), C03 (hostile input) at parser level.
import os, sys, json, shutil
sys.path.insert(0, os.path.join(os.path.dirname(os.path.abspath(__file__)), "..", "lib"))
import vlib

def _replay(pid, path):
    w = json.load(open(path))
    wit = w.get("witness") or {}
    case = wit.get("case", wit) if isinstance(wit, dict) else {}
    if not isinstance(case, dict) or "hex" not in case:
        print("witness has no replayable parser case"); return 2
    binary = vlib.build_harness("parser", "plain")
    args = [binary, "--mode", "replay", "--hex", case["hex"], "--kind", case.get("kind", "req"),
            "--cuts", ",".join(str(c) for c in case.get("cuts", [])), "--limit", str(case.get("limit", 65536))]
    r = vlib.run_proc(args, timeout=60)
    print(r["out"])
    if r["timed_out"] or r["rc"] not in (0, 1):
        print("VIOLATION property=%s replay=%s" % (pid, path)); return 1
    if r["rc"] == 1:
        print("VIOLATION property=%s replay=%s" % (pid, path)); return 1
    return 0

def run(pid, tier, seed, replay=None):
    if replay:
        return _replay(pid, replay)
    return {"C01": run_c01, "C04": run_c04, "C03": run_c03}[pid](tier, seed)

def _finish(v, work, counters, distinct, samples, stats, rule, extra=None):
    cov = dict(evaluations=int(counters.get("evaluations", 0)), distinct_nontrivial=len(distinct), rule=rule, samples=samples[:8],
               monitor_counts=counters.get("counts", {}), **stats)
    if extra:
        cov.update(extra)
    v.coverage.update(cov)
    rc = v.finish()
    shutil.rmtree(work, ignore_errors=True)
    return rc

def run_c01(tier, seed):
    v = vlib.Verdict("C01", tier, seed, level="exploration")
    work = vlib.scratch_dir("C01")
    nsh = vlib.NCPU
    cases = 24 if tier == "quick" else 1500           # messages per shard
    binary = vlib.build_harness("parser", "plain")
    res = vlib.run_resumable(binary, ["--prop", "c01", "--seed", str(seed), "--cases", str(cases), "--multi", "32"], nsh,
                             timeout=300 if tier == "quick" else 7200, work=work)
    counters, distinct, samples, stats = vlib.collect_runs(v, res)
    # second pass of a sample under ASan+UBSan (same inputs, fewer messages)
    abin = vlib.build_harness("parser", "asan")
    res2 = vlib.run_resumable(abin, ["--prop", "c01", "--seed", str(seed), "--cases", str(max(2, cases // 8)), "--multi", "8"], nsh,
                              timeout=300 if tier == "quick" else 7200, work=work, env=vlib.SAN_ENV_EXPLORE, tag="a")
    c2, d2, s2, st2 = vlib.collect_runs(v, res2)
    stats["asan_pass"] = dict(evaluations=int(c2.get("evaluations", 0)), **st2)
    sbin = vlib.build_harness("server", "plain")
    res3 = vlib.run_resumable(sbin, ["--prop", "seg", "--seed", str(seed), "--cases", str(10 if tier == "quick" else 400)], 6,
                              timeout=300 if tier == "quick" else 7200, work=work, tag="s")
    c3, d3, s3, st3 = vlib.collect_runs(v, res3, only_prefix="c01:")
    distinct |= {x for x in d3}
    stats["server_level"] = dict(exchanges=int(c3.get("counts", {}).get("c01_server_level", 0)), **st3)
    extra = dict(cut_classes_hit=sorted(counters.get("cutclasses", [])), n_cut_classes=len(counters.get("cutclasses", [])))
    v.assumptions += ["reference = the same parser fed the whole message at once (differential)", "messages come from harness/msggen.h (RFC 7230 grammar + near-well-formed variants), parser limit 64 KiB so the size limit is not in play"]
    return _finish(v, work, counters, distinct, samples, stats,
                   "per generated message of n bytes: all n-1 single cuts, the byte-by-byte delivery and 32 sampled multi-cut sets, each on a fresh parser, compared with whole delivery (state per piece, parsed-message snapshot, error status, CPU-time budget per delivery). distinct = (message shape, grammar-role pair at the cut) and multi-cut role signatures",
                   extra)

def run_c04(tier, seed):
    v = vlib.Verdict("C04", tier, seed, level="exploration")
    work = vlib.scratch_dir("C04")
    nsh = vlib.NCPU
    cases = 1500 if tier == "quick" else 120000
    binary = vlib.build_harness("parser", "plain")
    res = vlib.run_resumable(binary, ["--prop", "c04", "--seed", str(seed), "--cases", str(cases)], nsh, timeout=300 if tier == "quick" else 7200, work=work)
    counters, distinct, samples, stats = vlib.collect_runs(v, res)
    abin = vlib.build_harness("parser", "asan")
    res2 = vlib.run_resumable(abin, ["--prop", "c04", "--seed", str(seed + 1000), "--cases", str(max(10, cases // 10))], nsh,
                              timeout=300 if tier == "quick" else 7200, work=work, env=vlib.SAN_ENV_EXPLORE, tag="a")
    c2, d2, s2, st2 = vlib.collect_runs(v, res2)
    distinct |= d2
    stats["asan_pass"] = dict(evaluations=int(c2.get("evaluations", 0)), **st2)
    sbin = vlib.build_harness("server", "plain")
    res3 = vlib.run_resumable(sbin, ["--prop", "seg", "--seed", str(seed + 3), "--cases", str(16 if tier == "quick" else 400)], 6,
                              timeout=300 if tier == "quick" else 7200, work=work, tag="s")
    c3, d3, s3, st3 = vlib.collect_runs(v, res3, only_prefix="c04:")
    distinct |= d3
    stats["server_level"] = dict(keepalive_exchanges=int(c3.get("counts", {}).get("c04_server_level", 0)),
                                 exchanges_after_a_failed_request=int(c3.get("counts", {}).get("c04_server_level_after_failure", 0)),
                                 exchanges_after_a_failed_request_with_blocked_output=int(c3.get("counts", {}).get("c04_server_level_after_failure_output_blocked", 0)),
                                 connections_closed_by_the_server_after_a_failure=int(c3.get("counts", {}).get("c04_server_closed_after_failure", 0)), **st3)
    # the same server-level sequences with every epoll_wait of the process delayed by 0-30 ms (the worker finds several segments, or the end of one
    # request and the beginning of the next, in one poll result)
    res3l = vlib.run_resumable(sbin, ["--prop", "seg", "--seed", str(seed + 13), "--cases", str(8 if tier == "quick" else 200), "--poll-delay", "30"], 4,
                               timeout=300 if tier == "quick" else 7200, work=work, tag="sl")
    c3l, d3l, s3l, st3l = vlib.collect_runs(v, res3l, only_prefix="c04:")
    distinct |= d3l
    stats["server_level_late_loop_threads"] = dict(keepalive_exchanges=int(c3l.get("counts", {}).get("c04_server_level", 0)), poll_delays_injected=int(c3l.get("counts", {}).get("poll_delays_injected", 0)), **st3l)
    # the client's use of the response parser: a response after a failed one on the same pooled connection
    cbin = vlib.build_harness("client", "plain")
    res4 = vlib.run_resumable(cbin, ["--prop", "c04c", "--seed", str(seed + 5), "--cases", str(6 if tier == "quick" else 200)], 6,
                              timeout=300 if tier == "quick" else 7200, work=work, tag="c")
    c4, d4, s4, st4 = vlib.collect_runs(v, res4, only_prefix="c04:")
    distinct |= d4
    stats["client_level"] = dict(sequences=int(c4.get("evaluations", 0)), counts=c4.get("counts", {}), **st4)
    v.assumptions += ["reset protocol as the framework applies it: reset() after Done, after any exception, after a refused feed (413); the client moves the response out before reset()",
                      "no pipelining: segments never span two messages"]
    return _finish(v, work, counters, distinct, samples, stats,
                   "sequences of 2-5 generated messages (bodyless / Content-Length / chunked, well-formed or near-well-formed, bodies sometimes beyond the parser limit so that the predecessor is abandoned mid-body by 413) on ONE parser in random segmentation, each compared with the same message and segmentation on a fresh parser; at server level (real endpoint, capped reads) keep-alive sequences of three valid requests, and a valid request after a predecessor that the framework answered with an error on the same connection (cookie/Cache-Control/Accept/Content-Length value rejected by a typed parser, handler throwing std::runtime_error or HttpError, unknown method, bad version), each compared with the same request on a fresh connection; at client level (real Experimental::Client, one pooled connection, maxResponseSize 256, scripted server) a response after one that the client rejected (too long in the first packet / from the second packet on, bad status line, bad Set-Cookie value, bad chunk size, Content-Length together with chunked) must be the one a fresh connection would deliver. distinct = (parser kind, how the predecessor ended, successor shape, outcome)")

def _fuzz_stage(v, seed, work):
    """Coverage-guided stage (clang 14 libFuzzer + ASan + UBSan).  float-cast-overflow is disabled and signed-integer-overflow
    is non-fatal in this build because of the recorded finding in the vendored date parser (libFuzzer stops at the first
    fatal report); both kinds stay covered by the gcc sanitizer passes."""
    import glob, re, subprocess
    fbin = vlib.build_harness("fuzz_parser", "fuzz", extra=["-fsanitize=fuzzer,address,undefined"], opt="-O1")
    corpus = os.path.join(work, "corpus"); os.makedirs(corpus, exist_ok=True)
    seeds = [b"\x00\x01GET /a?b=c&d HTTP/1.1\r\nHost: x\r\nCookie: a=b; c=d\r\nContent-Length: 3\r\n\r\nabc",
             b"\x00\x02POST /p HTTP/1.1\r\nTransfer-Encoding: chunked\r\n\r\n3\r\nabc\r\n0\r\n\r\n",
             b"\x01\x00HTTP/1.1 200 OK\r\nSet-Cookie: a=b; Path=/; Max-Age=5\r\nContent-Length: 2\r\n\r\nok",
             b"\x03\x00a=b; Path=/; Domain=x.y; Max-Age=5; Secure; HttpOnly; Scope=z",
             b"\x04\x00a=b; c=d; e=", b"\x05\x00application/vnd.api+json; q=0.75; charset=utf-8",
             b"\x06\x00[::ffff:1.2.3.4]:8080", b"\x06\x01" + b"65535", b"\x07\x00QWxhZGRpbjpvcGVuIHNlc2FtZQ=="]
    for k in range(19):
        seeds.append(bytes([2, k]) + b"max-age=12, public")
    for i, sd in enumerate(seeds):
        open(os.path.join(corpus, "seed%d" % i), "wb").write(sd)
    runs = 300000
    procs = []
    for j in range(vlib.NCPU):
        cd = os.path.join(work, "fz%d" % j); os.makedirs(cd, exist_ok=True)
        cmd = [fbin, "-runs=%d" % runs, "-max_len=2048", "-seed=%d" % (seed * 100 + j), "-artifact_prefix=%s/" % cd, "-print_final_stats=1", corpus]
        procs.append((cd, subprocess.Popen(cmd, stdout=subprocess.PIPE, stderr=subprocess.STDOUT, cwd=cd,
                                           env=dict(os.environ, ASAN_OPTIONS="detect_leaks=0:quarantine_size_mb=8", UBSAN_OPTIONS="print_stacktrace=1"))))
    total, crashes, cov = 0, 0, 0
    for cd, p in procs:
        try:
            out, _ = p.communicate(timeout=3000)
        except subprocess.TimeoutExpired:
            p.kill(); out, _ = p.communicate()
            v.add_inconclusive("libFuzzer job hit the wall-clock watchdog")
        txt = out.decode("utf-8", "replace")
        m = re.search(r"stat::number_of_executed_units:\s*(\d+)", txt)
        total += int(m.group(1)) if m else 0
        for mm in re.finditer(r"cov: (\d+)", txt):
            cov = max(cov, int(mm.group(1)))
        for rep in vlib.parse_sanitizer_text(txt):
            v.violation(vlib.san_key(rep), "libFuzzer: %s %s in %s" % (rep["tool"], rep["kind"], rep["func"]), dict(stack=rep["stack"], report=rep["text"][:2500]))
        for art in glob.glob(os.path.join(cd, "crash-*")) + glob.glob(os.path.join(cd, "timeout-*")) + glob.glob(os.path.join(cd, "oom-*")):
            crashes += 1
            data = open(art, "rb").read()
            if not vlib.parse_sanitizer_text(txt):
                v.violation("fuzz:%s:entry%d" % (os.path.basename(art).split("-")[0], data[0] % 8 if data else 0), "libFuzzer artifact without a parsed sanitizer report", dict(hex=data[:600].hex(), tail=txt[-1500:]))
    return dict(executions=total, artifacts=crashes, max_edge_coverage=cov, jobs=len(procs))

def run_c03(tier, seed):
    v = vlib.Verdict("C03", tier, seed, level="exploration")
    work = vlib.scratch_dir("C03")
    nsh = vlib.NCPU
    cases = 12000 if tier == "quick" else 400000
    abin = vlib.build_harness("parser", "asan")
    res = vlib.run_resumable(abin, ["--prop", "c03", "--seed", str(seed), "--cases", str(cases)], nsh, timeout=300 if tier == "quick" else 7200,
                             work=work, env=vlib.SAN_ENV_EXPLORE, tag="a")
    counters, distinct, samples, stats = vlib.collect_runs(v, res)
    # allocation monitor + CPU budget pass in the plain flavour (replaced operator new)
    pbin = vlib.build_harness("parser", "plain")
    res2 = vlib.run_resumable(pbin, ["--prop", "c03", "--seed", str(seed), "--cases", str(cases)], nsh, timeout=300 if tier == "quick" else 7200, work=work, tag="p")
    c2, d2, s2, st2 = vlib.collect_runs(v, res2)
    stats["alloc_pass"] = dict(evaluations=int(c2.get("evaluations", 0)), monitor_counts=c2.get("counts", {}), **st2)
    counters["evaluations"] = counters.get("evaluations", 0) + c2.get("evaluations", 0)
    sabin = vlib.build_harness("server", "asan")
    res3 = vlib.run_resumable(sabin, ["--prop", "c03s", "--seed", str(seed), "--cases", str(40 if tier == "quick" else 1500)], 8,
                              timeout=300 if tier == "quick" else 7200, work=work, env=vlib.SAN_ENV_EXPLORE, tag="s")
    c3, d3, s3, st3 = vlib.collect_runs(v, res3)
    distinct |= d3
    counters["evaluations"] = counters.get("evaluations", 0) + c3.get("evaluations", 0)
    stats["server_level"] = dict(hostile_inputs=int(c3.get("evaluations", 0)), monitor_counts=c3.get("counts", {}), **st3)
    # memcheck cross-check: a slice of the hostile inputs in the plain flavour under valgrind (uninitialised values)
    mres = vlib.run_memcheck(pbin, ["--prop", "c03", "--seed", str(seed + 13), "--cases", str(400 if tier == "quick" else 12000)], 8 if tier == "quick" else vlib.NCPU, work,
                             timeout=600 if tier == "quick" else 7200)
    mc, md, ms, mst = vlib.collect_runs(v, mres, judge_report=lambda rep: rep.get("in_repo"))
    stats["memcheck_pass"] = dict(evaluations=int(mc.get("evaluations", 0)), **mst)
    if tier == "thorough":
        stats["libfuzzer"] = _fuzz_stage(v, seed, work)
    v.assumptions += ["memory bound judged per parser: largest single request <= 2*limit+1KiB, peak live <= 4*limit+8KiB (plain flavour, replaced operator new)",
                      "server level: 1-worker ASan endpoint, hostile bytes in random TCP segments on one connection, a keep-alive probe on another connection must be answered after every input (5 s x load bound, confirmed on a fresh connection)"]
    return _finish(v, work, counters, distinct, samples, stats,
                   "mutations of generated messages (bit flips, deletions, duplicated tokens, overlong numbers, lone CR/LF, doubled/missing separators, NUL/high bytes, truncation, injected framing headers), grammar-directed garbage and valid messages, each delivered whole, byte-wise and randomly cut to RequestParser/ResponseParser with limits 64/256/4096; every registered header parser, Cookie, CookieJar, MediaType, Address, Port, Base64 from guard-page buffers. Oracles: ASan+UBSan(+vector annotations), 2 s CPU budget per delivery, allocation monitor. distinct = (entry point, origin class, outcome, input hash%8192)")
