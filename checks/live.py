# Socket-level checks: C06/C07 (harness/writes.cc), others added below.
import os, sys, json, shutil
sys.path.insert(0, os.path.join(os.path.dirname(os.path.abspath(__file__)), "..", "lib"))
import vlib

def _finish(v, work, counters, distinct, samples, stats, rule, extra=None):
    cov = dict(evaluations=int(counters.get("evaluations", 0)), distinct_nontrivial=len(distinct), rule=rule, samples=samples[:8],
               monitor_counts=counters.get("counts", {}), **stats)
    if extra:
        cov.update(extra)
    v.coverage.update(cov)
    rc = v.finish()
    shutil.rmtree(work, ignore_errors=True)
    return rc

def run_c06(tier, seed):
    v = vlib.Verdict("C06", tier, seed, level="fault_enumeration")
    work = vlib.scratch_dir("C06")
    binary = vlib.build_harness("writes", "plain")
    nsh = 8
    res = vlib.run_resumable(binary, ["--prop", "c06", "--seed", str(seed), "--cases", str(60 if tier == "quick" else 4000), "--depth", "4" if tier == "quick" else "6"],
                             nsh, timeout=300 if tier == "quick" else 7200, work=work)
    counters, distinct, samples, stats = vlib.collect_runs(v, res)
    v.assumptions += ["socket outcomes are injected by link-time interposition of send/sendfile in the harness binary (no change to the repository)",
                      "the 'always fulfilled' half is judged at a logical point: a marker write queued after everything else has arrived at the peer"]
    return _finish(v, work, counters, distinct, samples, stats,
                   "per connection 1-6 writes (memory/file buffers, loop thread or foreign thread) on a raw Tcp::Listener+Transport; outcomes of successive socket write calls scripted: EVERY placement of {full, short(1), short(1500), would-block} over the first K calls for 5 write shapes (K=4 quick, 6 thorough), seeded random scripts up to 24 calls with sizes {1,4095,4096,4097,64Ki,1Mi,random}, and runs with real kernel back-pressure (4 KiB receive buffer, pausing reader). Every buffer is a tagged stream so the receiver locates loss/duplication/reordering byte-exactly; per-promise settle count, value, and bytes accepted at settle time. distinct = (write-shape, fault string, back-pressure) classes")

def run_c07(tier, seed):
    v = vlib.Verdict("C07", tier, seed, level="fault_enumeration")
    work = vlib.scratch_dir("C07")
    binary = vlib.build_harness("writes", "plain")
    nsh = 4
    res = vlib.run_resumable(binary, ["--prop", "c07", "--seed", str(seed), "--cases", str(3 if tier == "quick" else 60)],
                             nsh, timeout=300 if tier == "quick" else 7200, work=work)
    counters, distinct, samples, stats = vlib.collect_runs(v, res)
    v.assumptions += ["the blocked state is real kernel back-pressure (2 KiB receive buffer, peer not reading); busy-waiting is decided by COUNTING socket write attempts on the blocked descriptor (interposed send), not by wall-clock",
                      "other connections are given a generous, load-scaled bound (5 s x load factor) to be answered; the blocked peer is released only after they were answered"]
    return _finish(v, work, counters, distinct, samples, stats,
                   "1-worker endpoint; connection A requests 4-24 MiB with a 2 KiB receive buffer and does not read (0-3 further writes queued behind); 1-3 other connections issue requests before / during / repeatedly during the block; after 0.2-1.1 s A reads everything (byte-exact tagged body). distinct = (size, queued writes, other connections, arrival pattern, stall length)")

def run(pid, tier, seed, replay=None):
    return {"C06": run_c06, "C07": run_c07}[pid](tier, seed)
