# C11 (promise chains, sequential programs vs reference model) and C12 (cross-thread settle vs attach).
import os, sys, json, shutil
sys.path.insert(0, os.path.join(os.path.dirname(os.path.abspath(__file__)), "..", "lib"))
import vlib

def run(pid, tier, seed, replay=None):
    if pid == "C11":
        return run_c11(tier, seed, replay)
    from checks import coop
    return coop.run_c12(tier, seed, replay)

def run_c11(tier, seed, replay):
    binary = vlib.build_harness("promise", "plain")
    if replay:
        w = json.load(open(replay)); wit = w.get("witness") or {}
        r = vlib.run_proc([binary, "--mode", "replay", "--seed", str(wit.get("seed", 1)), "--index", str(wit.get("i", 0)), "--out", "/dev/stdout"], timeout=60)
        print(r["out"][-3000:])
        if '"t":"viol"' in r["out"]:
            print("VIOLATION property=C11 replay=%s" % replay); return 1
        return 0
    v = vlib.Verdict("C11", tier, seed, level="exploration")
    work = vlib.scratch_dir("C11")
    nsh = vlib.NCPU
    cases = 12000 if tier == "quick" else 1200000
    res = vlib.run_resumable(binary, ["--seed", str(seed), "--cases", str(cases)], nsh, timeout=300 if tier == "quick" else 7200, work=work)
    counters, distinct, samples, stats = vlib.collect_runs(v, res)
    abin = vlib.build_harness("promise", "asan")
    res2 = vlib.run_resumable(abin, ["--seed", str(seed + 77), "--cases", str(max(50, cases // 20))], nsh, timeout=300 if tier == "quick" else 7200,
                              work=work, env=vlib.SAN_ENV_EXPLORE, tag="a")
    c2, d2, s2, st2 = vlib.collect_runs(v, res2)
    distinct |= d2
    stats["asan_pass"] = dict(evaluations=int(c2.get("evaluations", 0)), **st2)
    # the inputs of one combinator settled by different threads at the same instant (free-running, under ThreadSanitizer)
    tbin = vlib.build_harness("coopmain", "tsan", opt="-O1")
    res3 = vlib.run_resumable(tbin, ["--prop", "c11mt", "--mode", "free", "--seed", str(seed + 5), "--cases", str(1500 if tier == "quick" else 150000), "--spin", "30"], max(2, vlib.NCPU // 3),
                              timeout=300 if tier == "quick" else 7200, work=work, env=vlib.SAN_ENV_EXPLORE, tag="t")
    c3, d3, s3, st3 = vlib.collect_runs(v, res3, judge_report=lambda rep: rep["tool"] != "tsan" or rep.get("in_repo"))
    distinct |= d3
    stats["combinator_inputs_settled_by_different_threads"] = dict(rounds=int(c3.get("evaluations", 0)), counts=c3.get("counts", {}), **st3)
    v.coverage.update(evaluations=int(counters.get("evaluations", 0)) + int(c2.get("evaluations", 0)) + int(c3.get("evaluations", 0)), distinct_nontrivial=len(distinct),
                      rule="seeded random programs of 3-25 operations over the real Async API (create int/void promises; then with value-, string-, void- and promise-returning continuations x ignore/rethrow/custom rejection handlers, attached before or after settlement; whenAll/whenAny over 1-4 inputs; iterator whenAll; resolve/reject of any pending root incl. inputs of already-settled combinators), each checked against a sequential reference model of the statement (call counts, values, exception identity, final states; abstains where the statement is silent); plus 6 scenarios in which the inputs of one all-of / any-of combinator are settled by different threads at the same instant (variadic and iterator all-of with a value type whose copy takes a while, any-of, fulfilment against rejection), judged by continuation counts, slot values and ThreadSanitizer. distinct = distinct program texts",
                      samples=samples[:6], monitor_counts=counters.get("counts", {}), **stats)
    v.assumptions += ["same-promise re-entrancy from inside its own callback is not generated (self-deadlock on a non-recursive mutex by construction)",
                      "the exception a combinator rejects with, and what a non-rethrowing handler passes downstream, are not judged (statement silent)"]
    rc = v.finish()
    shutil.rmtree(work, ignore_errors=True)
    return rc
