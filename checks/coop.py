# C12 / C13: cooperative-scheduler schedule sampling at the PISTACHE_VERIF hooks + free-running TSan rounds.
import os, sys, json, shutil
sys.path.insert(0, os.path.join(os.path.dirname(os.path.abspath(__file__)), "..", "lib"))
import vlib

def _tsan_judge(rep):
    # only reports that involve Pistache code are judged
    return rep["tool"] != "tsan" or rep.get("in_repo")

def _run(pid, prop, tier, seed, coop_cases, free_cases, rule, assumptions):
    v = vlib.Verdict(pid, tier, seed, level="exploration")
    work = vlib.scratch_dir(pid)
    nsh = vlib.NCPU
    cbin = vlib.build_harness("coopmain", "plain")
    res = vlib.run_resumable(cbin, ["--prop", prop, "--mode", "coop", "--seed", str(seed), "--cases", str(coop_cases)], nsh,
                             timeout=300 if tier == "quick" else 7200, work=work, tag="c")
    counters, distinct, samples, stats = vlib.collect_runs(v, res)
    # systematic: every schedule with at most `preempt` preemptions, depth-first by prefix replay, per scenario / shape; the counters say
    # for which of them the tree was exhausted and for which it was cut at the budget
    pre = 2 if tier == "quick" else 3
    resd = vlib.run_resumable(cbin, ["--prop", prop, "--mode", "dfs", "--seed", str(seed), "--cases", str(4000 if tier == "quick" else 500000), "--preempt", str(pre)], 17 if pid == "C12" else 8,
                              timeout=400 if tier == "quick" else 7200, work=work, tag="d")
    cd, dd, sd, std_ = vlib.collect_runs(v, resd)
    distinct |= dd
    sysc = cd.get("counts", {})
    stats["systematic"] = dict(preemption_bound=pre, schedules=int(cd.get("evaluations", 0)) if pid == "C12" else int(sum(val for k, val in sysc.items() if k.startswith("systematic_schedules_"))),
                               exhausted=sorted(k[len("systematic_tree_exhausted_"):] for k in sysc if k.startswith("systematic_tree_exhausted_")),
                               cut_at_budget=sorted(k[len("systematic_tree_cut_at_budget_"):] for k in sysc if k.startswith("systematic_tree_cut_at_budget_")),
                               runs_that_did_not_repeat_their_prefix=int(sysc.get("systematic_runs_that_did_not_repeat_their_prefix", 0)), **std_)
    if stats["systematic"]["runs_that_did_not_repeat_their_prefix"]:
        v.add_inconclusive("systematic mode: a run did not repeat its prefix of choices (the scenario is not deterministic)")
    if not stats["systematic"]["exhausted"] and not stats["systematic"]["cut_at_budget"]:
        v.add_inconclusive("systematic mode observed nothing")
    tbin = vlib.build_harness("coopmain", "tsan", opt="-O1")
    # free-running threads: fewer processes than cores so that threads really run in parallel
    nfree = max(2, vlib.NCPU // 3)
    res2 = vlib.run_resumable(tbin, ["--prop", prop, "--mode", "free", "--seed", str(seed), "--cases", str(free_cases), "--spin", "30"], nfree,
                              timeout=300 if tier == "quick" else 7200, work=work, env=vlib.SAN_ENV_EXPLORE, tag="t")
    c2, d2, s2, st2 = vlib.collect_runs(v, res2, judge_report=_tsan_judge)
    stats["tsan_free_running"] = dict(rounds=int(c2.get("evaluations", 0)), monitor_counts=c2.get("counts", {}), **st2)
    if pid == "C13":
        # server level: the transport's drain loop over the same queue type
        wbin = vlib.build_harness("writes", "plain")
        res3 = vlib.run_resumable(wbin, ["--prop", "c13s", "--seed", str(seed), "--cases", str(6 if tier == "quick" else 150)], 4,
                                  timeout=300 if tier == "quick" else 7200, work=work, tag="s")
        c3, d3, s3, st3 = vlib.collect_runs(v, res3)
        distinct |= d3
        stats["server_level_drain_loop"] = dict(scenarios=int(c3.get("evaluations", 0)), **st3)
        # the same server-level scenarios with every epoll_wait of the process delayed by 0-40 ms: the worker finds bigger batches in its queues
        res4 = vlib.run_resumable(wbin, ["--prop", "c13s", "--seed", str(seed + 9), "--cases", str(3 if tier == "quick" else 80), "--poll-delay", "40"], 4,
                                  timeout=300 if tier == "quick" else 7200, work=work, tag="sl")
        c4, d4, s4, st4 = vlib.collect_runs(v, res4)
        distinct |= d4
        stats["server_level_drain_loop_late_loop_threads"] = dict(scenarios=int(c4.get("evaluations", 0)), poll_delays_injected=int(c4.get("counts", {}).get("poll_delays_injected", 0)), **st4)
    v.coverage.update(evaluations=int(counters.get("evaluations", 0)) + int(c2.get("evaluations", 0)), distinct_nontrivial=len(distinct),
                      distinct_interleavings=len(distinct), coop_schedules=int(counters.get("evaluations", 0)),
                      rule=rule, samples=samples[:6], monitor_counts=counters.get("counts", {}), **stats)
    v.assumptions += assumptions
    rc = v.finish()
    shutil.rmtree(work, ignore_errors=True)
    return rc

def run_c12(tier, seed, replay=None):
    return _run("C12", "c12", tier, seed, 1500 if tier == "quick" else 150000, 6000 if tier == "quick" else 600000,
                "16 scenarios (resolve|then, reject|then, resolve(parent)|then(derived), ...|then(derived).then, inner promise settled by a third thread, reject(parent)|then(derived) with rethrow, two attachers, void promise, and one per continuation specialisation that settles a derived promise: void parent with value-returning continuation, void parent with promise-returning continuation, inner promise already fulfilled, rejection of a void parent, inner promise rejected by a third thread, a promise with 2 or 4 continuations attached beforehand that gets one more while it is being fulfilled, and an attaching thread whose own wrong-typed settle attempt has just been refused) x seeded schedules of the cooperative scheduler (uniform random walk and PCT with 1-3 change points) switching at the async.h hooks and at modelled lock acquire/release; per-continuation counters and values judged at the end of every schedule; plus free-running rounds under ThreadSanitizer with random spins at the hooks. distinct = distinct (scenario, schedule trace) hashes",
                ["schedules are sampled; in addition every schedule with at most 2 (thorough: 3) preemptions is enumerated per scenario where the budget allows (evidence: systematic.exhausted / cut_at_budget); the scheduler only switches at hooks (sequentially consistent interleavings of hooked steps)",
                 "TSan reports without a Pistache frame are not judged"])

def run_c13(tier, seed, replay=None):
    return _run("C13", "c13", tier, seed, 3000 if tier == "quick" else 150000, 12000 if tier == "quick" else 600000,
                "1-3 producers x 1-3 pushes against the framework's consumer pattern (sleep until the eventfd is readable, then popSafe() until empty), scheduled by the cooperative scheduler at the mailbox.h hooks (exchange, link store, tail read, eventfd write/read); unique item ids give loss/duplication/order; the wake-up predicate (queue non-empty, eventfd not readable, consumer idle, producers done) is evaluated when the consumer goes idle; plus free-running rounds under ThreadSanitizer. distinct = distinct (shape, schedule trace) hashes",
                ["schedules are sampled; in addition every schedule with at most 2 (thorough: 3) preemptions is enumerated per shape where the budget allows (evidence: systematic.exhausted / cut_at_budget)", "epoll_wait is modelled as 'sleep until poll() says readable'"])
