// Re-entrancy of the value code behind C16-C20: the same operations that the single-threaded value harness judges one at a time are run
// by several threads at once, each thread on objects of its own.  Every operation is a deterministic function of (operation, seed);
// phase 1 computes its result with one thread, phase 2 lets T threads walk the same (operation, seed) pairs in different orders and
// compares.  A server parses and writes headers, cookies, media types and credentials on all of its workers at once: a result that
// depends on what another thread is doing (shared scratch buffer, lazily filled table, static stream) breaks the round trip for some
// byte string in some schedule.  Oracles: result equality, exceptions, crash handler, ThreadSanitizer (tsan flavour).
//   --prop c16|c17|c18|c19|c20   --cases <pairs per operation>   --threads T
#include "common.h"
#include <pistache/http.h>
#include <pistache/http_headers.h>
#include <pistache/cookie.h>
#include <pistache/mime.h>
#include <pistache/net.h>
#include <pistache/base64.h>
#include <pistache/router.h>
#include <thread>
#include <atomic>
#include <functional>
#include <sstream>
#include <arpa/inet.h>

using namespace Pistache;
using namespace vf;

static Opts g_opts;
static std::mutex g_em;
static std::atomic<long> g_evals{0};
static std::atomic<int> g_viol_budget{40};

static std::string rnd(Rng& r, int lo, int hi, const char* alphabet) { std::string s; int n = r.range(lo, hi); size_t m = strlen(alphabet); for (int i = 0; i < n; i++) s += alphabet[r.below(m)]; return s; }
static std::string octets(Rng& r, int lo, int hi) { std::string s; int n = r.range(lo, hi); for (int i = 0; i < n; i++) s += (char)r.below(256); return s; }
static const char* TOK = "abcdefghijklmnopqrstuvwxyzABCDEFGHIJKLMNOPQRSTUVWXYZ0123456789-._~";
static const char* CKV = "abcdefghijklmnopqrstuvwxyzABCXYZ0123456789!#$%&'()*+-./:<>?@[]^_`{|}~";
template <class F> static std::string guard(F f) {
    try { return f(); } catch (const Http::HttpError& e) { return std::string("!HttpError ") + std::to_string(e.code()) + " " + e.what(); }
    catch (const std::exception& e) { return std::string("!") + e.what(); } catch (...) { return "!unknown"; }
}
struct Op { std::string prop, name; std::function<std::string(Rng&)> fn; };
static std::vector<Op> ops() {
    std::vector<Op> v;
    // ---- C20
    v.push_back({"c20", "base64-encode-decode", [](Rng& r) { return guard([&] {
        std::string b = octets(r, 0, r.chance(1, 8) ? 3000 : 90);
        std::string enc = Base64Encoder::EncodeString(b);
        Base64Decoder d(enc); const auto& out = d.Decode(); std::string dec; for (auto x : out) dec += (char)x;
        return enc + "|" + (dec == b ? "same" : "DIFFERENT " + hex(dec.substr(0, 32))); }); }});
    v.push_back({"c20", "basic-credentials", [](Rng& r) { return guard([&] {
        std::string u = rnd(r, 0, 20, "abcXYZ019 !#$%&/()=?*+~.,;-_<>|@"), p = octets(r, 0, 40);
        Http::Header::Authorization a; a.setBasicUserPassword(u, p);
        std::string gu = a.getBasicUser(), gp = a.getBasicPassword();
        return a.value() + "|" + (gu == u ? "u" : "USER-DIFFERS") + (gp == p ? "p" : "PASSWORD-DIFFERS"); }); }});
    // ---- C19
    v.push_back({"c19", "address-parse-print", [](Rng& r) { return guard([&] {
        std::string text;
        if (r.chance(1, 2)) { text = std::to_string(r.below(256)) + "." + std::to_string(r.below(256)) + "." + std::to_string(r.below(256)) + "." + std::to_string(r.below(256)); }
        else { unsigned char raw[16]; for (auto& c : raw) c = r.chance(1, 3) ? 0 : (unsigned char)r.below(256); char buf[64]; inet_ntop(AF_INET6, raw, buf, sizeof buf); text = std::string("[") + buf + "]"; }
        if (r.chance(2, 3)) text += ":" + std::to_string(r.below(65536));
        Address a(text); std::ostringstream os; os << a;
        Address b(os.str());
        return text + " -> " + a.host() + "|" + std::to_string((unsigned)a.port()) + "|" + std::to_string(a.family()) + "|" + os.str() + "|" + b.host() + "|" + std::to_string((unsigned)b.port()); }); }});
    v.push_back({"c19", "port-text", [](Rng& r) { return guard([&] {
        static const char* P[] = {"", "0", "80", "65535", "65536", "-1", "99999999999", "8o", " 80"};
        std::string t = r.chance(1, 2) ? std::string(r.pick(P)) : std::to_string(r.below(70000));
        Port p(t); return t + " -> " + std::to_string((unsigned)p) + "|" + p.toString(); }); }});
    // ---- C18
    v.push_back({"c18", "media-type-text", [](Rng& r) { return guard([&] {
        static const char* T[] = {"application", "audio", "image", "text", "video", "multipart", "message", "*"};
        static const char* S[] = {"json", "xml", "html", "plain", "javascript", "css", "png", "gif", "jpeg", "octet-stream", "x-www-form-urlencoded", "form-data", "svg", "*", "vnd.acme.thing", "x-custom"};
        static const char* X[] = {"", "", "+json", "+xml", "+zip", "+ber", "+der", "+fastinfoset", "+wbxml"};
        std::string t = std::string(r.pick(T)) + "/" + r.pick(S) + r.pick(X);
        if (r.chance(1, 2)) { int q = (int)r.below(101); char b[16]; snprintf(b, sizeof b, q == 100 ? "1" : q % 10 ? "0.%02d" : "0.%d", q == 100 ? 0 : q % 10 ? q : q / 10); t += std::string("; q=") + b; }
        int np = r.range(0, 2); for (int i = 0; i < np; i++) t += "; " + rnd(r, 1, 6, "abcdefghijklmnoprstuvwxyz") + "=" + rnd(r, 1, 8, TOK);
        if (r.chance(1, 6)) t = rnd(r, 0, 12, "abc/+;= q.0");                  // mostly not a media type
        auto m = Http::Mime::MediaType::fromRaw(t.data(), t.size());
        std::string q = m.q().has_value() ? std::to_string((unsigned)(uint16_t)*m.q()) : "-";
        return t + " -> " + m.toString() + "|" + std::to_string((int)m.top()) + "|" + std::to_string((int)m.sub()) + "|" + std::to_string((int)m.suffix()) + "|" + q + "|" + m.rawSub(); }); }});
    v.push_back({"c18", "media-type-built", [](Rng& r) { return guard([&] {
        using namespace Http::Mime;
        static const Type T[] = {Type::Application, Type::Audio, Type::Image, Type::Text, Type::Video, Type::Multipart, Type::Star};
        static const Subtype S[] = {Subtype::Json, Subtype::Xml, Subtype::Html, Subtype::Plain, Subtype::Javascript, Subtype::Css, Subtype::Png, Subtype::OctetStream, Subtype::Star};
        static const Suffix X[] = {Suffix::None, Suffix::Json, Suffix::Xml, Suffix::Zip, Suffix::None};
        MediaType m(r.pick(T), r.pick(S), r.pick(X));
        if (r.chance(1, 2)) m.setQuality(Q((uint16_t)r.below(101)));
        if (r.chance(1, 2)) m.setParam(rnd(r, 1, 6, "abcdefghijklmnoprstuvwxyz"), rnd(r, 1, 8, TOK));
        std::string s = m.toString(); auto b = MediaType::fromString(s);
        return s + " -> " + b.toString() + (b == m ? "|eq" : "|NOT-EQUAL"); }); }});
    // ---- C17
    v.push_back({"c17", "cookie-write-parse", [](Rng& r) { return guard([&] {
        Http::Cookie c(rnd(r, 1, 8, TOK), rnd(r, 0, 16, CKV)); int mask = (int)r.below(128);
        if (mask & 1) c.path = "/" + rnd(r, 0, 10, TOK);
        if (mask & 2) c.domain = rnd(r, 1, 8, "abcdefghijklmnopqrstuvwxyz") + ".org";
        if (mask & 4) c.maxAge = (int)r.below(2147483648ull);
        if (mask & 8) c.expires = Http::FullDate(std::chrono::system_clock::time_point(std::chrono::seconds((long)r.below(4200000000ull))));
        c.secure = mask & 16; c.httpOnly = mask & 32;
        if (mask & 64) c.ext[rnd(r, 1, 6, "abcfgijklnoqrtuvwxyz")] = rnd(r, 0, 8, TOK);
        std::ostringstream os; os << c; std::string t1 = os.str();
        Http::Cookie d = Http::Cookie::fromRaw(t1.data(), t1.size());
        std::ostringstream os2; os2 << d;
        bool same = d.name == c.name && d.value == c.value && d.path == c.path && d.domain == c.domain && d.maxAge == c.maxAge && d.secure == c.secure && d.httpOnly == c.httpOnly && d.ext == c.ext
                    && d.expires.has_value() == c.expires.has_value() && (!c.expires || d.expires->date() == c.expires->date());
        return t1 + " -> " + os2.str() + (same ? "|eq" : "|NOT-EQUAL"); }); }});
    v.push_back({"c17", "cookie-jar", [](Rng& r) { return guard([&] {
        int n = r.range(0, 8); std::string text; std::multiset<std::string> want;
        std::set<std::string> seen;
        for (int i = 0; i < n; i++) { std::string k = rnd(r, 1, 4, "abcdef"), val = rnd(r, 0, 8, TOK); if (!seen.insert(k + "=" + val).second) continue; if (!text.empty()) text += "; "; text += k + "=" + val; want.insert(k + "=" + val); }
        Http::CookieJar jar; jar.addFromRaw(text.data(), text.size());
        std::multiset<std::string> got; for (auto it = jar.begin(); it != jar.end(); ++it) got.insert(it->name + "=" + it->value);
        std::string s; for (auto& g : got) s += g + ",";
        return text + " -> " + s + (got == want ? "|eq" : "|NOT-EQUAL"); }); }});
    // ---- C16
    v.push_back({"c16", "typed-header-parse-write", [](Rng& r) { return guard([&] {
        static const char* N[] = {"Cache-Control", "Connection", "Content-Encoding", "Transfer-Encoding", "Content-Length", "Content-Type", "Date", "Host", "Location", "Server", "User-Agent", "Accept", "Authorization", "Expect", "Access-Control-Allow-Origin", "Access-Control-Allow-Methods", "Access-Control-Allow-Headers", "Access-Control-Expose-Headers", "Allow"};
        std::string n = r.pick(N), val;
        if (n == "Cache-Control") { static const char* D[] = {"no-cache", "no-store", "max-age=%d", "public", "private", "s-maxage=%d", "must-revalidate", "max-stale=%d", "min-fresh=%d", "no-transform", "only-if-cached", "proxy-revalidate"}; int k = r.range(1, 3); for (int i = 0; i < k; i++) { char b[64]; snprintf(b, sizeof b, r.pick(D), (int)r.below(2147483647)); val += (i ? ", " : "") + std::string(b); } }
        else if (n == "Connection") val = r.chance(1, 2) ? "keep-alive" : r.chance(1, 2) ? "Close" : "Upgrade";
        else if (n == "Content-Encoding" || n == "Transfer-Encoding") { static const char* E[] = {"gzip", "deflate", "compress", "identity", "chunked", "br"}; val = r.pick(E); }
        else if (n == "Content-Length") val = std::to_string(r.below(1ull << r.range(1, 62)));
        else if (n == "Content-Type" || n == "Accept") val = r.chance(1, 2) ? "application/json" : r.chance(1, 2) ? "text/html; q=0.8; charset=utf-8" : "image/svg+xml";
        else if (n == "Date") { std::ostringstream os; Http::FullDate(std::chrono::system_clock::time_point(std::chrono::seconds((long)r.below(4102444800ull)))).write(os); val = os.str(); }
        else if (n == "Host") val = rnd(r, 1, 12, "abcdefghijklmnopqrstuvwxyz0123456789.") + (r.chance(1, 2) ? ":" + std::to_string(1 + r.below(65535)) : "");
        else if (n == "Authorization") val = r.chance(1, 2) ? "Basic " + Base64Encoder::EncodeString(rnd(r, 1, 8, TOK) + ":" + rnd(r, 0, 8, TOK)) : "Bearer " + rnd(r, 1, 30, TOK);
        else if (n == "Expect") val = "100-continue";
        else if (n == "Allow" || n == "Access-Control-Allow-Methods") { static const char* M[] = {"GET", "POST", "PUT", "DELETE", "PATCH", "OPTIONS", "HEAD"}; int k = r.range(1, 4); for (int i = 0; i < k; i++) val += (i ? ", " : "") + std::string(r.pick(M)); }
        else val = rnd(r, 1, 30, TOK);
        auto h = Http::Header::Registry::instance().makeHeader(n);
        h->parseRaw(val.data(), val.size());
        std::ostringstream os; h->write(os); std::string w1 = os.str();
        auto h2 = Http::Header::Registry::instance().makeHeader(n); h2->parseRaw(w1.data(), w1.size());
        std::ostringstream os2; h2->write(os2);
        return n + ": " + val + " -> " + w1 + (os2.str() == w1 ? "|stable" : "|SECOND-WRITE-DIFFERS " + os2.str()); }); }});
    v.push_back({"c16", "request-headers-lookup", [](Rng& r) { return guard([&] {
        // a whole request through the parser (the path every worker runs), then look-ups under other capitalisations
        int nh = r.range(1, 6); std::vector<std::pair<std::string, std::string>> hs; std::string msg = "GET /" + rnd(r, 0, 8, TOK) + "?a=" + rnd(r, 0, 5, TOK) + " HTTP/1.1\r\n";
        std::set<std::string> names;
        for (int i = 0; i < nh; i++) { std::string n = "X-" + rnd(r, 1, 8, "abcdefghijklmnopqrstuvwxyz"); if (!names.insert(n).second) continue; std::string val = rnd(r, 1, 20, TOK); hs.push_back({n, val}); msg += n + ": " + val + "\r\n"; }
        msg += "Cookie: k" + rnd(r, 1, 3, "abc") + "=" + rnd(r, 1, 6, TOK) + "\r\nHost: h.example:8080\r\nContent-Length: 3\r\n\r\nabc";
        Http::RequestParser p(4096); if (!p.feed(msg.data(), msg.size())) return std::string("feed refused");
        auto st = p.parse(); if (st != Http::Private::State::Done) return std::string("not done");
        std::string out = p.request.resource() + "|" + p.request.body() + "|";
        for (auto& h : hs) { std::string alt; for (char c : h.first) alt += r.chance(1, 2) ? (char)toupper((unsigned char)c) : (char)tolower((unsigned char)c); auto raw = p.request.headers().tryGetRaw(alt); out += raw.has_value() ? (raw->value() == h.second ? "+" : "VALUE-DIFFERS") : "MISSING"; }
        auto host = p.request.headers().tryGet<Http::Header::Host>(); out += host ? host->host() + ":" + std::to_string((unsigned)host->port()) : "NOHOST";
        for (auto it = p.request.cookies().begin(); it != p.request.cookies().end(); ++it) out += "|" + it->name + "=" + it->value;
        return out; }); }});
    return v;
}

int main(int argc, char** argv) {
    g_opts = parse_opts(argc, argv);
    install_handlers();
    std::string prop = g_opts.get("prop", "c20");
    int T = (int)g_opts.num("threads", 6);
    long K = g_opts.cases > 0 ? g_opts.cases : 2000;
    std::vector<Op> all = ops(), sel;
    for (auto& o : all) if (o.prop == prop) sel.push_back(o);
    if (sel.empty()) { fprintf(stderr, "no operations for %s\n", prop.c_str()); return 3; }
    uint64_t base = g_opts.seed * 7919ull + (uint64_t)g_opts.shard * 104729ull;
    // phase 1: one thread
    std::vector<std::vector<std::string>> expect(sel.size(), std::vector<std::string>((size_t)K));
    set_case(0, Json().str("phase", "reent-alone").str("prop", prop).done());
    for (size_t o = 0; o < sel.size(); o++) for (long k = 0; k < K; k++) { Rng r(base + (uint64_t)o * 1000003ull + (uint64_t)k); expect[o][(size_t)k] = sel[o].fn(r); }
    std::map<std::string, long> threw;
    for (size_t o = 0; o < sel.size(); o++) { for (long k = 0; k < K; k++) if (!expect[o][(size_t)k].empty() && expect[o][(size_t)k][0] == '!') threw[sel[o].name]++;
        for (long k = 0; k < 2 && k < K; k++) sample(Json().str("operation", sel[o].name).str("result_alone", expect[o][(size_t)k].substr(0, 300)).done()); }
    // the same once more alone: an operation that is not a function of its input (time, address of an object) cannot be judged this way
    std::vector<bool> deterministic(sel.size(), true);
    for (size_t o = 0; o < sel.size(); o++) for (long k = 0; k < K && deterministic[o]; k += 7) { Rng r(base + (uint64_t)o * 1000003ull + (uint64_t)k); if (sel[o].fn(r) != expect[o][(size_t)k]) deterministic[o] = false; }
    // phase 2: T threads, each walks all pairs in an order of its own
    set_case(1, Json().str("phase", "reent-concurrent").str("prop", prop).num("threads", T).done());
    std::atomic<int> ready{0}; std::atomic<bool> go{false};
    std::vector<std::thread> th;
    std::vector<Distinct> dist((size_t)T);
    for (int t = 0; t < T; t++) th.emplace_back([&, t] {
        ready++; while (!go.load()) { }
        Rng order(base ^ (0x9E3779B97F4A7C15ull * (uint64_t)(t + 1)));
        size_t total = sel.size() * (size_t)K; size_t start = (size_t)order.below(total); size_t stride = 1; { static const size_t P[] = {1, 7, 11, 13, 17, 19, 23}; stride = P[(size_t)t % 7]; while (total % stride == 0 && stride > 1) stride += 2; }
        for (size_t n = 0; n < total; n++) {
            size_t ix = (start + n * stride) % total; size_t o = ix % sel.size(); long k = (long)(ix / sel.size());
            Rng r(base + (uint64_t)o * 1000003ull + (uint64_t)k);
            std::string got = sel[o].fn(r);
            g_evals++;
            if (deterministic[o] && got != expect[o][(size_t)k] && g_viol_budget.fetch_sub(1) > 0) {
                std::lock_guard<std::mutex> g(g_em);
                violation(prop + ":concurrent-use:" + sel[o].name, "operation '" + sel[o].name + "' gives a different result when other threads run value code at the same time: alone '" + expect[o][(size_t)k].substr(0, 160) + "', concurrently '" + got.substr(0, 160) + "'",
                          Json().str("phase", "reent").str("prop", prop).str("operation", sel[o].name).num("seed", (long long)(base + (uint64_t)o * 1000003ull + (uint64_t)k)).num("thread", t).num("threads", T).str("alone", expect[o][(size_t)k].substr(0, 400)).str("concurrent", got.substr(0, 400)).done());
            }
            dist[(size_t)t].add(sel[o].name + "|" + std::to_string(fnv(got) % 4096));
        }
    });
    while (ready.load() < T) { }
    go = true;
    for (auto& x : th) x.join();
    Distinct d; for (auto& x : dist) for (auto h : x.seen) d.add(h);
    d.flush();
    Json s; s.str("t", "sum").num("evaluations", g_evals.load());
    Json c; c.num("operations", (long long)sel.size()).num("pairs_per_operation", K).num("threads", T); for (size_t o = 0; o < sel.size(); o++) { c.num(std::string(deterministic[o] ? "op_" : "op_not_deterministic_") + sel[o].name, K); c.num("rejected_inputs_" + sel[o].name, threw[sel[o].name]); }
    s.raw("counts", c.done());
    emit(s.done());
    _exit(0);
}
