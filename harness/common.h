// Common support for the /verif harnesses: seeded PRNG, JSONL event output, guard-page
// buffers, crash / CPU-hang handlers that name the case being run, sanitizer report hooks.
#pragma once
#include <cstdint>
#include <cstdio>
#include <cstdlib>
#include <cstring>
#include <string>
#include <vector>
#include <set>
#include <map>
#include <unordered_set>
#include <functional>
#include <algorithm>
#include <signal.h>
#include <time.h>
#include <unistd.h>
#include <fcntl.h>
#include <sys/mman.h>
#include <execinfo.h>
#include <dlfcn.h>
#include <valgrind/valgrind.h>
#include <errno.h>

namespace vf {

// ---------------------------------------------------------------- PRNG (splitmix64)
struct Rng {
    uint64_t s;
    // the seed is hashed into the state: with s = seed * increment, generators seeded k, k+1, k+2 (shards, cases) would walk the
    // SAME sequence shifted by one step, and "independent" shards would repeat each other's cases
    static uint64_t mix(uint64_t z) { z += 0x9E3779B97F4A7C15ull; z = (z ^ (z >> 30)) * 0xBF58476D1CE4E5B9ull; z = (z ^ (z >> 27)) * 0x94D049BB133111EBull; z = z ^ (z >> 31); z *= 0xD6E8FEB86659FD93ull; return z ^ (z >> 32); }
    explicit Rng(uint64_t seed = 1) : s(mix(mix(seed) + 0x1234567ull)) {}
    uint64_t next() {
        uint64_t z = (s += 0x9E3779B97F4A7C15ull);
        z = (z ^ (z >> 30)) * 0xBF58476D1CE4E5B9ull;
        z = (z ^ (z >> 27)) * 0x94D049BB133111EBull;
        return z ^ (z >> 31);
    }
    // uniform in [0,n)
    uint64_t below(uint64_t n) { return n ? next() % n : 0; }
    int range(int lo, int hi) { return lo + (int)below((uint64_t)(hi - lo + 1)); }
    bool chance(int num, int den) { return below(den) < (uint64_t)num; }
    template <class T> const T& pick(const std::vector<T>& v) { return v[below(v.size())]; }
    template <class T, size_t N> const T& pick(const T (&a)[N]) { return a[below(N)]; }
};

inline uint64_t fnv(const void* p, size_t n, uint64_t h = 1469598103934665603ull) {
    const unsigned char* c = (const unsigned char*)p;
    for (size_t i = 0; i < n; i++) { h ^= c[i]; h *= 1099511628211ull; }
    return h;
}
inline uint64_t fnv(const std::string& s, uint64_t h = 1469598103934665603ull) { return fnv(s.data(), s.size(), h); }

// ---------------------------------------------------------------- JSON helpers
inline std::string jstr(const std::string& s) {
    std::string o = "\"";
    char b[8];
    for (unsigned char c : s) {
        if (c == '"') o += "\\\"";
        else if (c == '\\') o += "\\\\";
        else if (c == '\n') o += "\\n";
        else if (c == '\r') o += "\\r";
        else if (c == '\t') o += "\\t";
        else if (c < 0x20 || c >= 0x7f) { snprintf(b, sizeof b, "\\u%04x", c); o += b; }
        else o += (char)c;
    }
    return o + "\"";
}
inline std::string hex(const std::string& s) {
    static const char* d = "0123456789abcdef";
    std::string o;
    for (unsigned char c : s) { o += d[c >> 4]; o += d[c & 15]; }
    return o;
}
inline std::string unhex(const std::string& s) {
    std::string o;
    auto v = [](char c) { return c <= '9' ? c - '0' : (c | 32) - 'a' + 10; };
    for (size_t i = 0; i + 1 < s.size(); i += 2) o += (char)(v(s[i]) * 16 + v(s[i + 1]));
    return o;
}

struct Json {  // tiny object builder
    std::string s = "{";
    bool first = true;
    Json& raw(const std::string& k, const std::string& v) {
        if (!first) s += ",";
        first = false;
        s += jstr(k) + ":" + v;
        return *this;
    }
    Json& str(const std::string& k, const std::string& v) { return raw(k, jstr(v)); }
    Json& num(const std::string& k, long long v) { return raw(k, std::to_string(v)); }
    Json& unum(const std::string& k, unsigned long long v) { return raw(k, std::to_string(v)); }
    Json& boolean(const std::string& k, bool v) { return raw(k, v ? "true" : "false"); }
    std::string done() const { return s + "}"; }
};
inline std::string jarr(const std::vector<std::string>& rawitems) {
    std::string o = "[";
    for (size_t i = 0; i < rawitems.size(); i++) { if (i) o += ","; o += rawitems[i]; }
    return o + "]";
}
template <class T> std::string jnums(const std::vector<T>& v) {
    std::string o = "[";
    for (size_t i = 0; i < v.size(); i++) { if (i) o += ","; o += std::to_string(v[i]); }
    return o + "]";
}

// ---------------------------------------------------------------- options / output
struct Opts {
    uint64_t seed = 1;
    long cases = 1000;
    long start = 0;
    int shard = 0, nshards = 1;
    std::string out, replay, mode;
    std::map<std::string, std::string> kv;
    long num(const std::string& k, long def) const {
        auto it = kv.find(k);
        return it == kv.end() ? def : atol(it->second.c_str());
    }
    std::string get(const std::string& k, const std::string& def = "") const {
        auto it = kv.find(k);
        return it == kv.end() ? def : it->second;
    }
};

inline int g_out_fd = 1;
inline char g_case[1 << 16];             // JSON description of the case in flight
inline volatile long g_case_index = -1;
inline volatile int g_san_reports = 0;
inline const char* g_phase = "";

inline void emit(const std::string& line) {
    std::string l = line + "\n";
    size_t off = 0;
    while (off < l.size()) {
        ssize_t n = ::write(g_out_fd, l.data() + off, l.size() - off);
        if (n <= 0) { if (errno == EINTR) continue; break; }
        off += (size_t)n;
    }
}
inline void set_case(long index, const std::string& json) {
    g_case_index = index;
    size_t n = std::min(json.size(), sizeof(g_case) - 1);
    memcpy(g_case, json.data(), n);
    g_case[n] = 0;
}
inline void violation(const std::string& key, const std::string& what, const std::string& witness_json) {
    emit(Json().str("t", "viol").str("key", key).str("what", what).raw("witness", witness_json.empty() ? "null" : witness_json).done());
}
inline void sample(const std::string& json) { emit(Json().str("t", "sample").raw("v", json).done()); }

struct Distinct {
    std::unordered_set<uint64_t> seen;
    std::vector<uint64_t> pending;
    bool add(uint64_t h) {
        h &= 0x1fffffffffffffull;  // keep exactly representable in JSON readers
        if (seen.insert(h).second) { pending.push_back(h); return true; }
        return false;
    }
    bool add(const std::string& s) { return add(fnv(s)); }
    void flush() {
        for (size_t i = 0; i < pending.size(); i += 2000) {
            std::vector<uint64_t> part(pending.begin() + i, pending.begin() + std::min(pending.size(), i + 2000));
            emit(Json().str("t", "d").raw("k", jnums(part)).done());
        }
        pending.clear();
    }
    size_t size() const { return seen.size(); }
};

// ---------------------------------------------------------------- crash + CPU-hang handlers
inline void sig_write(const char* s) { (void)!::write(g_out_fd, s, strlen(s)); }
inline void sig_num(long v) {
    char b[32]; int i = 30; b[31] = 0; bool neg = v < 0; if (neg) v = -v;
    if (!v) b[i--] = '0';
    while (v) { b[i--] = (char)('0' + v % 10); v /= 10; }
    if (neg) b[i--] = '-';
    sig_write(b + i + 1);
}
inline void crash_handler(int sig, siginfo_t*, void*) {
    // async-signal-safe-ish: write a record naming the case in flight, with a raw backtrace
    sig_write("\n{\"t\":\"crash\",\"sig\":"); sig_num(sig);
    sig_write(",\"index\":"); sig_num(g_case_index);
    sig_write(",\"phase\":\""); sig_write(g_phase); sig_write("\"");
    sig_write(",\"case\":"); sig_write(g_case[0] ? g_case : "null");
    sig_write(",\"bt\":[");
    void* fr[48];
    int n = backtrace(fr, 48);
    char** syms = backtrace_symbols(fr, n);  // not strictly signal safe; acceptable in a dying harness
    for (int i = 0; i < n && syms; i++) {
        if (i) sig_write(",");
        sig_write("\"");
        for (const char* c = syms[i]; *c; c++) { if (*c == '"' || *c == '\\' || (unsigned char)*c < 0x20) continue; char b[2] = {*c, 0}; sig_write(b); }
        sig_write("\"");
    }
    sig_write("]}\n");
    _exit(sig == SIGXCPU ? 43 : 42);
}
// One-shot CPU-time budget for the calling thread: SIGXCPU when a single case burns > limit.
// The budget judges the code under test, not the sanitizer runtime: the first report of a process makes the runtime read the
// debug information of the whole executable (seconds of CPU on a loaded machine).  When the budget expires while the interrupted
// code is the runtime's own (the frames right below the signal frame belong to lib{asan,ubsan,tsan}), the budget is granted again,
// at most 6 times; a call that really hangs is still reported, a little later.
inline timer_t g_budget_timer{}; inline bool g_budget_ok = false; inline double g_budget_sec = 0; inline int g_budget_extensions = 0; inline long g_budget_extensions_total = 0;
inline double g_budget_wall0 = 0; inline long g_budget_spurious = 0;
inline double budget_wall_now() { struct timespec ts; clock_gettime(CLOCK_MONOTONIC, &ts); return (double)ts.tv_sec + ts.tv_nsec * 1e-9; }
inline void xcpu_handler(int sig, siginfo_t* si, void* uc) {
    // one thread cannot have used more CPU time than wall-clock time has passed: a budget signal that arrives before the budget has passed on the
    // wall clock is not a hang of the code under test (seen under a load of 60 in a VM: 10 s budgets "used up" by tables that take milliseconds);
    // the timer is set again for what is left
    if (g_budget_ok && g_budget_wall0 > 0) { double wall = budget_wall_now() - g_budget_wall0; if (wall < g_budget_sec * 0.95) { g_budget_spurious++; double left = g_budget_sec - wall; if (left < 0.1) left = 0.1;
        struct itimerspec its{}; its.it_value.tv_sec = (time_t)left; its.it_value.tv_nsec = (long)((left - (time_t)left) * 1e9); timer_settime(g_budget_timer, 0, &its, nullptr); return; } }
    if (g_budget_ok && g_budget_extensions < 6) {
        void* fr[24]; int n = backtrace(fr, 24); bool inRuntime = false;
        // frames 0-2 are this handler, (the sanitizer's signal wrapper,) the signal trampoline; look at the interrupted frames
        for (int i = 1; i < n && i < 8 && !inRuntime; i++) { Dl_info di{}; if (dladdr(fr[i], &di) && di.dli_fname) { const char* b = strrchr(di.dli_fname, '/'); b = b ? b + 1 : di.dli_fname; if (!strncmp(b, "libubsan", 8) || !strncmp(b, "libtsan", 7)) inRuntime = true; } }
        // libasan also hosts the signal wrapper itself (frame 0/1 of every handler run): require libasan frames BELOW the trampoline (libc)
        if (!inRuntime) { bool seenLibc = false; for (int i = 1; i < n && i < 10; i++) { Dl_info di{}; if (!dladdr(fr[i], &di) || !di.dli_fname) continue; const char* b = strrchr(di.dli_fname, '/'); b = b ? b + 1 : di.dli_fname; if (!strncmp(b, "libc.", 5)) { seenLibc = true; continue; } if (seenLibc) { inRuntime = !strncmp(b, "libasan", 7); break; } } }
        if (inRuntime) {
            g_budget_extensions++; g_budget_extensions_total++;
            struct itimerspec its{}; its.it_value.tv_sec = (time_t)g_budget_sec; its.it_value.tv_nsec = (long)((g_budget_sec - (time_t)g_budget_sec) * 1e9);
            timer_settime(g_budget_timer, 0, &its, nullptr);
            return;
        }
    }
    crash_handler(sig, si, uc);
}
// memcheck cross-check: when the harness runs under valgrind, the end of every case asks the tool how many errors it has reported so
// far; an increase is recorded with the case in flight, so that the reports in valgrind's log (same order) can be attributed
inline void vg_case_end() {
    static const bool on = RUNNING_ON_VALGRIND != 0; static unsigned long last = 0;
    if (!on) return;
    unsigned long n = VALGRIND_COUNT_ERRORS;
    if (n > last) { emit(std::string("{\"t\":\"vgerr\",\"n\":") + std::to_string(n - last) + ",\"index\":" + std::to_string(g_case_index) + ",\"case\":" + (g_case[0] ? g_case : "null") + "}"); last = n; }
}
struct CpuBudget {
    timer_t tm{};
    bool ok = false;
    void init() {
        struct sigevent sev{};
        sev.sigev_notify = SIGEV_SIGNAL;
        sev.sigev_signo = SIGXCPU;
        ok = timer_create(CLOCK_THREAD_CPUTIME_ID, &sev, &tm) == 0;
        g_budget_timer = tm; g_budget_ok = ok;
    }
    void arm(double sec) {
        if (!ok) return;
        g_budget_sec = sec; g_budget_extensions = 0; g_budget_wall0 = budget_wall_now();
        struct itimerspec its{};
        its.it_value.tv_sec = (time_t)sec;
        its.it_value.tv_nsec = (long)((sec - (time_t)sec) * 1e9);
        timer_settime(tm, 0, &its, nullptr);
    }
    void disarm() { if (ok) { struct itimerspec its{}; timer_settime(tm, 0, &its, nullptr); } vg_case_end(); }
};
inline void install_handlers(bool with_segv = true) {
    struct sigaction sa{};
    sa.sa_sigaction = crash_handler;
    sa.sa_flags = SA_SIGINFO | SA_NODEFER | SA_RESETHAND;
    sigemptyset(&sa.sa_mask);
    static char altstack[1 << 16];
    stack_t ss{}; ss.ss_sp = altstack; ss.ss_size = sizeof altstack; sigaltstack(&ss, nullptr);
    sa.sa_flags |= SA_ONSTACK;
    { struct sigaction sx = sa; sx.sa_sigaction = xcpu_handler; sx.sa_flags &= ~SA_RESETHAND; sigaction(SIGXCPU, &sx, nullptr); }
#if !defined(__SANITIZE_ADDRESS__) && !defined(__SANITIZE_THREAD__)
    if (with_segv) {
        sigaction(SIGSEGV, &sa, nullptr);
        sigaction(SIGBUS, &sa, nullptr);
        sigaction(SIGABRT, &sa, nullptr);
        sigaction(SIGFPE, &sa, nullptr);
        sigaction(SIGILL, &sa, nullptr);
    }
#else
    (void)with_segv;
    sigaction(SIGABRT, &sa, nullptr);
#endif
    signal(SIGPIPE, SIG_IGN);
}

inline Opts parse_opts(int argc, char** argv) {
    Opts o;
    for (int i = 1; i < argc; i++) {
        std::string a = argv[i];
        if (a.rfind("--", 0) != 0) continue;
        std::string k = a.substr(2), v = (i + 1 < argc) ? argv[i + 1] : "";
        i++;
        o.kv[k] = v;
        if (k == "seed") o.seed = strtoull(v.c_str(), nullptr, 10);
        else if (k == "cases") o.cases = atol(v.c_str());
        else if (k == "start") o.start = atol(v.c_str());
        else if (k == "shard") o.shard = atoi(v.c_str());
        else if (k == "nshards") o.nshards = atoi(v.c_str());
        else if (k == "out") o.out = v;
        else if (k == "replay") o.replay = v;
        else if (k == "mode") o.mode = v;
    }
    if (!o.out.empty()) {
        int fd = ::open(o.out.c_str(), O_WRONLY | O_CREAT | O_APPEND, 0644);
        if (fd >= 0) g_out_fd = fd;
    }
    return o;
}

// ---------------------------------------------------------------- guard-page buffers
// The input's last byte is the last mapped byte; the next page is PROT_NONE.
struct Fence {
    char* base = nullptr;
    size_t maplen = 0;
    char* ptr = nullptr;
    size_t len = 0;
    Fence() = default;
    Fence(const Fence&) = delete;
    Fence& operator=(const Fence&) = delete;
    void place(const void* data, size_t n) {
        size_t pg = (size_t)sysconf(_SC_PAGESIZE);
        size_t need = ((n + pg - 1) / pg + 1) * pg + pg;
        if (need > maplen) {
            release();
            base = (char*)mmap(nullptr, need, PROT_READ | PROT_WRITE, MAP_PRIVATE | MAP_ANONYMOUS, -1, 0);
            if (base == MAP_FAILED) { perror("mmap"); _exit(2); }
            maplen = need;
            mprotect(base + maplen - pg, pg, PROT_NONE);
        }
        size_t pg2 = (size_t)sysconf(_SC_PAGESIZE);
        ptr = base + maplen - pg2 - n;
        len = n;
        if (n) memcpy(ptr, data, n);
        // poison what lies before with a recognisable non-zero byte so nothing looks NUL-terminated
        if (ptr > base) memset(base, 0xAA, (size_t)(ptr - base));
    }
    void release() { if (base && base != MAP_FAILED) munmap(base, maplen); base = nullptr; maplen = 0; }
    ~Fence() { release(); }
};

inline double now_s() {
    struct timespec ts; clock_gettime(CLOCK_MONOTONIC, &ts);
    return ts.tv_sec + ts.tv_nsec * 1e-9;
}
inline double thread_cpu_s() {
    struct timespec ts; clock_gettime(CLOCK_THREAD_CPUTIME_ID, &ts);
    return ts.tv_sec + ts.tv_nsec * 1e-9;
}

// numbers at the edges of the integer types that hand-written and library conversions stumble over
inline std::string magic_number(Rng& r) {
    static const char* N[] = {"0", "00", "007", "255", "256", "4095", "4096", "65535", "65536", "99999", "214748364", "2147483639", "2147483640", "2147483646", "2147483647", "2147483648", "2147483649", "2147483650",
                              "4294967294", "4294967295", "4294967296", "4294967297", "9223372036854775806", "9223372036854775807", "9223372036854775808", "9223372036854775809", "18446744073709551614", "18446744073709551615",
                              "18446744073709551616", "-1", "-2147483648", "-2147483649", "-9223372036854775808", "1e3", "0x10", "010"};
    return N[r.below(sizeof N / sizeof N[0])];
}
// replaces one run of digits of s (or inserts at a random place when there is none) by a magic number
inline void put_magic_number(Rng& r, std::string& s) {
    std::vector<std::pair<size_t, size_t>> runs;
    for (size_t i = 0; i < s.size();) { if (isdigit((unsigned char)s[i])) { size_t j = i; while (j < s.size() && isdigit((unsigned char)s[j])) j++; runs.push_back({i, j - i}); i = j; } else i++; }
    std::string m = magic_number(r);
    if (runs.empty()) s.insert(s.empty() ? 0 : r.below(s.size() + 1), m);
    else { auto run = runs[r.below(runs.size())]; s.replace(run.first, run.second, m); }
}
}  // namespace vf

// Sanitizer report hooks: stamp every report with the case in flight (stderr, same stream as
// the report itself so that ordering is preserved).
#if defined(__SANITIZE_ADDRESS__) || defined(VERIF_UBSAN_HOOK)
extern "C" inline void verif_san_marker() {
    const char* a = "@@CASE ";
    (void)!::write(2, a, strlen(a));
    if (vf::g_case[0]) (void)!::write(2, vf::g_case, strlen(vf::g_case)); else (void)!::write(2, "null", 4);
    (void)!::write(2, "\n", 1);
    vf::g_san_reports = vf::g_san_reports + 1;
}
extern "C" void __asan_on_error() { verif_san_marker(); }
extern "C" void __ubsan_on_report() { verif_san_marker(); }
#endif

// Coverage builds (bin/coverage only): the harnesses leave through _exit(), which skips the counters' at-exit dump.
#ifdef VF_COVERAGE
extern "C" void __gcov_dump(void);
inline void vf_cov_exit(int c) { __gcov_dump(); ::_exit(c); }
#define _exit(c) vf_cov_exit(c)
#endif
