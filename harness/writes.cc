// C06: queued writes reach the peer completely, in order and exactly once, under scripted
//      short-write / would-block outcomes (fault enumeration over the first socket write calls)
//      and under real kernel back-pressure.
// C07: a peer that cannot be written to does not stall other connections of the same worker.
// Plain flavour: send/sendfile are interposed at link time (harness/live.h).
#define LV_DEFINE_INTERPOSERS 1
#include "live.h"

#include <pistache/endpoint.h>
#include <pistache/http.h>
#include <pistache/listener.h>
#include <pistache/peer.h>
#include <pistache/transport.h>
#include <sys/stat.h>
#include <condition_variable>

using namespace Pistache;
using namespace vf;

static Opts g_opts;
static Distinct g_distinct;
static long g_evals = 0;
static std::map<std::string, long> g_counts;
static long g_samples_left = 5;
static void count(const std::string& k, long n = 1) { g_counts[k] += n; }
static std::string g_tmpdir;

static inline unsigned char tag_byte(unsigned w, size_t j) {
    uint32_t x = (uint32_t)(j * 2654435761u) ^ (w * 40503u + 0x9e37u);
    return (unsigned char)((x >> 13) ^ (x >> 3) ^ w);
}
static std::string tagged(unsigned w, size_t n) { std::string s(n, '\0'); for (size_t j = 0; j < n; j++) s[j] = (char)tag_byte(w, j); return s; }

// Address::fromUnix keeps sin_port in network byte order: convert to match the client's getsockname() port
static int peer_port(const std::shared_ptr<Tcp::Peer>& peer) { return (int)ntohs((uint16_t)peer->address().port()); }
struct WriteSpec { size_t size; bool file; bool foreign; };
struct WriteRec { std::atomic<int> settled{0}; std::atomic<int> fulfilled{0}; std::atomic<long> value{-1}; std::atomic<long> acceptedAtSettle{-1}; std::atomic<long> settleClock{-1}; };
struct Scenario {
    std::vector<WriteSpec> writes;
    std::vector<std::unique_ptr<WriteRec>> recs;
    std::vector<std::string> files;
    std::atomic<int> issued{0};
    unsigned base = 0;
    bool foreignInsideHandler = false;   // the handler itself starts a thread that issues the foreign writes, joins it, then writes from the loop thread
};
struct PeerInfo { int fd = -1; std::shared_ptr<Tcp::Peer> peer; std::string inbuf; int connections = 0, disconnections = 0; };
static std::mutex g_m;
static std::map<int, PeerInfo> g_peers;        // keyed by the client's port
static std::map<int, Scenario*> g_scen;        // keyed by the client's port

static void issue_write(Tcp::Transport* tr, int fd, Scenario* sc, size_t i) {
    const WriteSpec& w = sc->writes[i];
    WriteRec* rec = sc->recs[i].get();
    auto onOk = [rec, fd](ssize_t v) {
        rec->value = (long)v; rec->fulfilled++;
        { lv::Interpose& I = lv::ip(); std::lock_guard<std::mutex> g(I.m); auto it = I.fds.find(fd); rec->acceptedAtSettle = it == I.fds.end() ? -2 : (long)it->second.accepted; rec->settleClock = I.clock.load(); }
        rec->settled++;
    };
    auto onErr = [rec](std::exception_ptr) { rec->settled++; };
    if (w.file) tr->asyncWrite(fd, FileBuffer(sc->files[i])).then(onOk, onErr);
    else { std::string data = tagged(sc->base + (unsigned)i, w.size); tr->asyncWrite(fd, RawBuffer(std::move(data), w.size)).then(onOk, onErr); }
    sc->issued++;
}

static std::shared_ptr<Tcp::Peer> g_flush_other;
class WHandler : public Tcp::Handler {
public:
    PROTOTYPE_OF(Tcp::Handler, WHandler)
    void onConnection(const std::shared_ptr<Tcp::Peer>& peer) override {
        std::lock_guard<std::mutex> g(g_m);
        PeerInfo& pi = g_peers[peer_port(peer)];
        pi.fd = peer->fd(); pi.peer = peer; pi.connections++;
        { lv::Interpose& I = lv::ip(); std::lock_guard<std::mutex> g2(I.m); I.fds[pi.fd]; }   // start logging this descriptor
    }
    void onDisconnection(const std::shared_ptr<Tcp::Peer>& peer) override {
        std::lock_guard<std::mutex> g(g_m);
        auto it = g_peers.find(peer_port(peer));
        if (it != g_peers.end()) { it->second.disconnections++; it->second.peer.reset(); }
    }
    void onInput(const char* buffer, size_t len, const std::shared_ptr<Tcp::Peer>& peer) override {
        int port = peer_port(peer);
        Scenario* sc = nullptr; std::vector<std::string> cmds;
        {
            std::lock_guard<std::mutex> g(g_m);
            PeerInfo& pi = g_peers[port];
            pi.inbuf.append(buffer, len);
            size_t p;
            while ((p = pi.inbuf.find('\n')) != std::string::npos) { cmds.push_back(pi.inbuf.substr(0, p)); pi.inbuf.erase(0, p + 1); }
            auto it = g_scen.find(port); sc = it == g_scen.end() ? nullptr : it->second;
        }
        for (const std::string& cmd : cmds)
        if (cmd == "GO" && sc) {
            if (sc->foreignInsideHandler) {
                // happens-before is explicit: the foreign thread's writes are issued (and the thread joined) before the loop thread's
                Tcp::Transport* tr = transport(); int fd = peer->fd();
                std::thread t([&] { for (size_t i = 0; i < sc->writes.size(); i++) if (sc->writes[i].foreign) issue_write(tr, fd, sc, i); });
                t.join();
            }
            for (size_t i = 0; i < sc->writes.size(); i++) if (!sc->writes[i].foreign) issue_write(transport(), peer->fd(), sc, i);
        } else if (cmd == "SLEEP") {
            lv::msleep(250);
        } else if (cmd.rfind("FLUSH ", 0) == 0) {
            // "FLUSH <tag>": a write for ANOTHER connection of this worker (registered under g_flush_other), then a write for this one, then an
            // explicit Transport::flush() - what a streamed response's flush does.  Whatever the flush finds in the shared queue belongs to
            // somebody and has to be written (or armed for writing), not only the entries of the connection that asked for the flush.
            unsigned tg = (unsigned)atoi(cmd.c_str() + 6);
            std::shared_ptr<Tcp::Peer> other; { std::lock_guard<std::mutex> g(g_m); other = g_flush_other; }
            if (other) { std::string dy = tagged(tg + 1, 524); transport()->asyncWrite(other->fd(), RawBuffer(dy, dy.size())); }
            std::string dx = tagged(tg, 300); transport()->asyncWrite(peer->fd(), RawBuffer(dx, dx.size()));
            transport()->flush();
        } else if (cmd == "PING") {
            transport()->asyncWrite(peer->fd(), RawBuffer(std::string("PONG!"), 5));
        }
    }
};

static bool wait_for(std::function<bool()> f, double sec) { double end = lv::now() + sec; while (lv::now() < end) { if (f()) return true; lv::msleep(1); } return f(); }

struct Server {
    Tcp::Listener listener;
    int port = 0;
    void start(int workers) {
        listener.init((size_t)workers, Flags<Tcp::Options>(Tcp::Options::ReuseAddr));
        listener.setHandler(std::make_shared<WHandler>());
        listener.bind(Address(Ipv4::loopback(), Port(0)));
        port = listener.getPort();
        listener.runThreaded();
    }
    void stop() { listener.shutdown(); }
};

static std::string script_text(const std::vector<lv::Act>& s) { std::string t; for (auto& a : s) t += a.kind == lv::A_PASS ? "F" : a.kind == lv::A_EAGAIN ? "E" : "S" + std::to_string(a.k) + ","; return t; }
static std::string spec_text(const std::vector<WriteSpec>& w) { std::string t; for (auto& x : w) t += std::string(x.file ? "file" : "mem") + (x.foreign ? "@thread" : "@loop") + ":" + std::to_string(x.size) + " "; return t; }

// run one scripted connection; returns false on harness trouble (inconclusive)
static bool c06_connection(Server& srv, long idx, const std::vector<WriteSpec>& writes, const std::vector<lv::Act>& script, bool foreignFirst, int rcvbuf, int readerPauseMs, unsigned base, bool insideHandler = false, bool raceWithInput = false) {
    Scenario sc; sc.writes = writes; sc.base = base; sc.foreignInsideHandler = insideHandler;
    if (insideHandler) foreignFirst = true;
    if (raceWithInput) { foreignFirst = false; }
    size_t total = 0;
    for (size_t i = 0; i < writes.size(); i++) {
        sc.recs.emplace_back(new WriteRec());
        total += writes[i].size;
        if (writes[i].file) {
            std::string fn = g_tmpdir + "/w" + std::to_string(idx) + "_" + std::to_string(i);
            FILE* f = fopen(fn.c_str(), "wb"); std::string d = tagged(base + (unsigned)i, writes[i].size); fwrite(d.data(), 1, d.size(), f); fclose(f);
            sc.files.push_back(fn);
        } else sc.files.push_back("");
    }
    std::string wt = Json().num("i", idx).str("phase", "c06").str("writes", spec_text(writes)).str("script", script_text(script)).num("rcvbuf", rcvbuf).num("pause_ms", readerPauseMs).boolean("foreign_first", foreignFirst).done();
    set_case(idx, wt);
    lv::Conn c;
    if (!c.open_to(srv.port, rcvbuf)) { count("harness_connect_failed"); return false; }
    int sfd = -1; std::shared_ptr<Tcp::Peer> peer;
    if (!wait_for([&] { std::lock_guard<std::mutex> g(g_m); auto it = g_peers.find(c.localPort); if (it == g_peers.end() || it->second.fd < 0 || !it->second.peer) return false; sfd = it->second.fd; peer = it->second.peer; return true; }, 5.0)) { count("harness_no_registration"); return false; }
    { lv::Interpose& I = lv::ip(); std::lock_guard<std::mutex> g(I.m); lv::FdState& s = I.fds[sfd]; s = lv::FdState(); s.sendScript = script; }
    { std::lock_guard<std::mutex> g(g_m); g_scen[c.localPort] = &sc; }
    auto foreign = [&] { for (size_t i = 0; i < writes.size(); i++) if (writes[i].foreign) { std::string data = tagged(base + (unsigned)i, writes[i].size);
            WriteRec* rec = sc.recs[i].get(); int fd = sfd;
            auto onOk = [rec, fd](ssize_t v) { rec->value = (long)v; rec->fulfilled++; { lv::Interpose& I = lv::ip(); std::lock_guard<std::mutex> g(I.m); auto it = I.fds.find(fd); rec->acceptedAtSettle = it == I.fds.end() ? -2 : (long)it->second.accepted; } rec->settled++; };
            auto onErr = [rec](std::exception_ptr) { rec->settled++; };
            if (writes[i].file) { // files from a foreign thread go through the transport too
                Tcp::Transport* tr = nullptr; (void)tr;
                peer->send(RawBuffer(std::move(data), writes[i].size)).then(onOk, onErr);
            } else peer->send(RawBuffer(std::move(data), writes[i].size)).then(onOk, onErr);
            sc.issued++; } };
    // expected stream: the buffers in the order issued
    std::vector<size_t> order;
    if (foreignFirst) { for (size_t i = 0; i < writes.size(); i++) if (writes[i].foreign) order.push_back(i); for (size_t i = 0; i < writes.size(); i++) if (!writes[i].foreign) order.push_back(i); }
    else { for (size_t i = 0; i < writes.size(); i++) if (!writes[i].foreign) order.push_back(i); for (size_t i = 0; i < writes.size(); i++) if (writes[i].foreign) order.push_back(i); }
    std::string expect; for (size_t i : order) expect += tagged(base + (unsigned)i, writes[i].size);
    size_t nLoop = 0; for (auto& w : writes) if (!w.foreign) nLoop++;
    std::thread helper;
    if (raceWithInput) {
        // the foreign write is queued while bytes from the peer arrive: the worker may see "readable" and "writable" for this
        // descriptor in one event
        c.send_all("GO\n"); wait_for([&] { return sc.issued.load() >= (int)nLoop; }, 5.0);
        std::thread t([&] { for (int k = 0; k < 3; k++) { c.send_all("NOP\n"); } });
        foreign();
        t.join();
    }
    else if (insideHandler) c.send_all("GO\n");
    else if (foreignFirst) { foreign(); c.send_all("GO\n"); }
    else { c.send_all("GO\n"); wait_for([&] { return sc.issued.load() >= (int)nLoop; }, 5.0); foreign(); }
    if (readerPauseMs) lv::msleep(readerPauseMs);
    std::string got;
    double lf = lv::load_factor();
    double deadline = lv::now() + 10.0 * lf + total / 5e6;
    bool eof = false;
    while (got.size() < expect.size() && lv::now() < deadline && !eof) c.read_some(got, 100, expect.size() - got.size(), &eof);
    g_evals++;
    std::string sym;
    std::string shape = spec_text(writes);
    if (got.size() < expect.size()) sym = eof ? "connection-closed-early" : "bytes-missing";
    if (sym.empty() || got.size() > 0) {
        size_t n = std::min(got.size(), expect.size());
        size_t mis = 0; while (mis < n && got[mis] == expect[mis]) mis++;
        if (mis < n) {
            // which buffer / offset was expected there?
            size_t acc = 0, wi = 0; for (size_t k = 0; k < order.size(); k++) { if (mis < acc + writes[order[k]].size) { wi = order[k]; break; } acc += writes[order[k]].size; }
            sym = "stream-differs"; wt = Json().num("i", idx).str("phase", "c06").str("writes", spec_text(writes)).str("script", script_text(script)).num("first_mismatch", (long long)mis).num("in_write", (long long)wi).num("offset_in_write", (long long)(mis - acc)).num("received", (long long)got.size()).num("expected", (long long)expect.size()).done();
        }
    }
    // deterministic point for the promise verdict: a marker written after everything else
    bool ponged = false;
    if (sym.empty()) {
        c.send_all("PING\n");
        std::string tail; double d2 = lv::now() + 5.0 * lf;
        while (tail.size() < 5 && lv::now() < d2) c.read_some(tail, 100, 5 - tail.size());
        if (tail == "PONG!") ponged = true;
        else if (!tail.empty()) { sym = "stray-bytes-after-stream"; }
    }
    std::string key;
    if (!sym.empty()) key = "c06:" + sym;
    if (key.empty() && ponged) {
        size_t cum = 0;
        for (size_t k = 0; k < order.size() && key.empty(); k++) {
            size_t i = order[k]; WriteRec& r = *sc.recs[i]; cum += writes[i].size;
            std::string kind = std::string(writes[i].file ? "file" : "mem");
            bool interrupted = false; for (auto& a : script) if (a.kind != lv::A_PASS) interrupted = true;
            std::string ctx = kind + (interrupted ? ":after-short-or-wouldblock" : ":uninterrupted");
            if (r.settled > 1) key = "c06:promise-settled-twice:" + ctx;
            else if (r.settled == 0) key = "c06:promise-never-settled:" + ctx;
            else if (r.fulfilled == 0) key = "c06:promise-rejected:" + ctx;
            else if (r.value != (long)writes[i].size) { key = "c06:promise-value:" + ctx; wt = Json().num("i", idx).str("phase", "c06").str("writes", spec_text(writes)).str("script", script_text(script)).num("write", (long long)i).num("value", r.value.load()).num("size", (long long)writes[i].size).done(); }
            else if (r.acceptedAtSettle >= 0 && r.acceptedAtSettle < (long)cum) { key = "c06:promise-fulfilled-before-last-byte:" + ctx; }
        }
    } else if (key.empty() && !ponged) { count("inconclusive_no_pong"); }
    if (!key.empty()) violation(key, "writes [" + shape + "] with socket outcomes [" + script_text(script) + "]: " + key.substr(4), wt);
    std::string faults; for (auto& a : script) faults += a.kind == lv::A_PASS ? 'F' : a.kind == lv::A_EAGAIN ? 'E' : 'S';
    std::string wk; for (auto& w : writes) wk += std::string(w.file ? "f" : "m") + (w.foreign ? "t" : "l") + (w.size <= 1 ? "1" : w.size < 4096 ? "s" : w.size == 4096 ? "p" : w.size < 100000 ? "m" : "L");
    g_distinct.add(wk + "|" + faults + "|" + (rcvbuf ? "bp" : "") + (insideHandler ? "|ih" : "") + (raceWithInput ? "|race" : ""));
    count("connections");
    if (g_samples_left > 0 && (idx % 101) == 7) { g_samples_left--; sample(Json().str("writes", shape).str("script", script_text(script)).num("bytes", (long long)total).done()); }
    { std::lock_guard<std::mutex> g(g_m); g_scen.erase(c.localPort); }
    c.close_now();
    // let the server notice the disconnection before the Scenario goes away (pending callbacks reference it)
    wait_for([&] { std::lock_guard<std::mutex> g(g_m); auto it = g_peers.find(c.localPort); return it == g_peers.end() || it->second.disconnections > 0; }, 3.0);
    for (auto& f : sc.files) if (!f.empty()) unlink(f.c_str());
    { std::lock_guard<std::mutex> g(g_m); g_peers.erase(c.localPort); }
    return true;
}

static void run_c06(long cases) {
    lv::ip().enabled = true;
    Server srv; srv.start(1);
    Rng r(g_opts.seed * 7001 + (uint64_t)g_opts.shard);
    long idx = g_opts.shard * 1000000L;
    unsigned base = 1;
    // (1) fault enumeration: every placement of {full, short, would-block} over the first K write calls
    int K = (int)g_opts.num("depth", 4);
    std::vector<std::vector<WriteSpec>> shapes = {
        {{5000, false, false}},
        {{1, false, false}, {4096, false, false}, {4097, false, false}},
        {{3000, false, false}, {3000, true, false}},
        {{6000, true, false}},
        {{2000, false, true}, {2000, false, false}},
    };
    long total = 1; for (int k = 0; k < K; k++) total *= 4;
    long enumIndex = 0;
    for (size_t s = 0; s < shapes.size(); s++)
        for (long code = 0; code < total; code++, enumIndex++) {
            if (enumIndex % g_opts.nshards != g_opts.shard) continue;
            std::vector<lv::Act> script; long c = code;
            for (int k = 0; k < K; k++) { int a = (int)(c % 4); c /= 4; script.push_back(a == 0 ? lv::Act{lv::A_PASS, 0} : a == 1 ? lv::Act{lv::A_SHORT, 1} : a == 2 ? lv::Act{lv::A_SHORT, 1500} : lv::Act{lv::A_EAGAIN, 0}); }
            c06_connection(srv, idx++, shapes[s], script, s == 4 && (code & 1), 0, 0, base, s == 4 && (code & 2)); base += 8;
            count("enumerated_fault_scripts");
        }
    // (2) seeded random long scripts and sizes
    for (long n = 0; n < cases; n++) {
        int nw = r.range(1, 6);
        std::vector<WriteSpec> ws;
        static const size_t SZ[] = {0, 1, 4095, 4096, 4097, 65536, 1 << 20, 0};   // (an empty buffer is a write like any other: fulfilled with 0, nothing behind it held up)
        for (int i = 0; i < nw; i++) { size_t sz = r.chance(1, 2) ? r.pick(SZ) : (size_t)r.range(1, 200000); if (sz > 100000 && nw > 3) sz = 70000; bool foreign = r.chance(1, 4); ws.push_back({sz, !foreign && r.chance(1, 4), foreign}); }
        std::vector<lv::Act> script; int sl = r.range(0, 24);
        for (int k = 0; k < sl; k++) { int a = r.range(0, 3); script.push_back(a == 0 ? lv::Act{lv::A_PASS, 0} : a == 3 ? lv::Act{lv::A_EAGAIN, 0} : lv::Act{lv::A_SHORT, (size_t)r.range(1, 70000)}); }
        c06_connection(srv, idx++, ws, script, r.chance(1, 2), 0, 0, base, r.chance(1, 3)); base += 8;
        count("random_fault_scripts");
    }
    // (2b) a foreign-thread write racing with input from the same peer
    for (long n = 0; n < std::max<long>(40, cases); n++) {
        std::vector<WriteSpec> ws; int nw = r.range(1, 3);
        for (int i = 0; i < nw; i++) ws.push_back({(size_t)r.range(1, 3000), false, i == nw - 1 || r.chance(1, 2)});
        c06_connection(srv, idx++, ws, {}, false, 0, 0, base, false, true); base += 8;
        count("foreign_write_racing_with_input");
    }
    // (3) real kernel back-pressure: small receive buffer, reader pauses
    long nbp = std::max<long>(2, cases / 12);
    for (long n = 0; n < nbp; n++) {
        int nw = r.range(1, 3);
        std::vector<WriteSpec> ws;
        for (int i = 0; i < nw; i++) ws.push_back({(size_t)r.range(300000, 2500000), r.chance(1, 3), false});
        c06_connection(srv, idx++, ws, {}, false, 4096, r.range(50, 300), base); base += 8;
        count("backpressure_runs");
    }
    // (3b) the same with a slow acceptor: the acceptor thread is held for 150 ms right after it has handed the connection to the worker, so
    //      the worker registers the peer and parks its first writes on a would-block before the acceptor has finished its own part
    lv::ip().acceptorDelayMs = 150;
    for (long n = 0; n < std::max<long>(2, cases / 12); n++) {
        int nw = r.range(1, 2);
        std::vector<WriteSpec> ws;
        for (int i = 0; i < nw; i++) ws.push_back({(size_t)r.range(300000, 2500000), r.chance(1, 3), false});
        c06_connection(srv, idx++, ws, {}, false, 4096, r.range(350, 500), base); base += 8;
        count("backpressure_runs_with_a_slow_acceptor");
    }
    lv::ip().acceptorDelayMs = 0;
    count("acceptor_delays_injected", lv::ip().acceptorDelays.load());
    // (4) a connection that goes away with a write still pending, then new connections (the descriptor number is reused):
    //     each must receive exactly its own stream
    for (long n = 0; n < std::max<long>(3, cases / 20); n++) {
        {
            Scenario sc; sc.writes = {{(size_t)(6u << 20), false, false}}; sc.base = base; sc.recs.emplace_back(new WriteRec()); sc.files.push_back("");
            lv::Conn a; if (!a.open_to(srv.port, 2048)) continue;
            wait_for([&] { std::lock_guard<std::mutex> g(g_m); auto it = g_peers.find(a.localPort); return it != g_peers.end() && it->second.fd >= 0; }, 5.0);
            { std::lock_guard<std::mutex> g(g_m); g_scen[a.localPort] = &sc; }
            a.send_all("GO\n");
            wait_for([&] { return sc.issued.load() >= 1; }, 5.0);
            lv::msleep(r.range(20, 80));
            int lp = a.localPort;
            if (r.chance(1, 2)) a.rst_close(); else a.close_now();
            wait_for([&] { std::lock_guard<std::mutex> g(g_m); auto it = g_peers.find(lp); return it == g_peers.end() || it->second.disconnections > 0; }, 5.0);
            { std::lock_guard<std::mutex> g(g_m); g_scen.erase(lp); g_peers.erase(lp); }
            base += 8;
        }
        for (int k = 0; k < 3; k++) { c06_connection(srv, idx++, {{(size_t)r.range(1, 5000), false, r.chance(1, 2)}}, {}, false, 0, 0, base); base += 8; }
        count("new_connections_after_abandoned_write");
    }
    srv.stop();
}

// ------------------------------------------------------------------ C13 at server level: the write queue's drain loop
// A write queued for a connection that is already gone, with a write for a live connection queued right behind it while
// the worker is busy: the drain loop must not stop at the stale entry (the notification was consumed by then).
static void run_c13s(long cases) {
    lv::ip().enabled = true;
    Server srv; srv.start(1);
    Rng r(g_opts.seed * 7013 + (uint64_t)g_opts.shard);
    for (long n = 0; n < cases; n++) {
        long idx = g_opts.shard * 100000L + n;
        set_case(idx, Json().num("i", idx).str("phase", "c13-server").done());
        lv::Conn a, b, c;
        if (!a.open_to(srv.port) || !b.open_to(srv.port) || !c.open_to(srv.port)) continue;
        std::shared_ptr<Tcp::Peer> pa, pb;
        wait_for([&] { std::lock_guard<std::mutex> g(g_m); auto ia = g_peers.find(a.localPort), ib = g_peers.find(b.localPort), ic = g_peers.find(c.localPort); if (ia == g_peers.end() || ib == g_peers.end() || ic == g_peers.end() || !ia->second.peer || !ib->second.peer || !ic->second.peer) return false; pa = ia->second.peer; pb = ib->second.peer; return true; }, 5.0);
        if (!pa || !pb) { count("harness_no_registration"); continue; }
        int la = a.localPort;
        a.close_now();
        wait_for([&] { std::lock_guard<std::mutex> g(g_m); auto it = g_peers.find(la); return it == g_peers.end() || it->second.disconnections > 0; }, 5.0);
        // keep the worker away from its loop, then queue: stale write (A), live write (B)
        c.send_all("SLEEP\n");
        lv::msleep(30);
        std::string data = tagged(9000 + (unsigned)n, 100);
        try { pa->send(RawBuffer(std::string("stale"), 5)); } catch (...) {}
        pb->send(RawBuffer(data, data.size()));
        std::string got; double end = lv::now() + 4.0 * lv::load_factor();
        while (got.size() < data.size() && lv::now() < end) b.read_some(got, 100, data.size() - got.size());
        g_evals++;
        if (got != data) violation(g_opts.get("kp", "c13") + ":server:write-behind-stale-entry-not-drained", "a write queued behind a write for a vanished connection was not delivered within the bound (" + std::to_string(got.size()) + " of " + std::to_string(data.size()) + " bytes): the drain loop stopped with items queued and no notification pending", g_case);
        g_distinct.add("c13s|" + std::to_string(n % 64));
        count("stale_then_live_writes");
        { std::lock_guard<std::mutex> g(g_m); g_peers.erase(la); }
        {   // an explicit flush asked for by one connection while a write for another connection is in the shared queue: both arrive
            unsigned tg = 30000 + (unsigned)(n % 1000) * 4;
            { std::lock_guard<std::mutex> g(g_m); g_flush_other = pb; }
            c.send_all("FLUSH " + std::to_string(tg) + "\n");
            std::string wx = tagged(tg, 300), wy = tagged(tg + 1, 524), gx, gy; double ef = lv::now() + 4.0 * lv::load_factor();
            while ((gx.size() < wx.size() || gy.size() < wy.size()) && lv::now() < ef) { if (gx.size() < wx.size()) c.read_some(gx, 30, wx.size() - gx.size()); if (gy.size() < wy.size()) b.read_some(gy, 30, wy.size() - gy.size()); }
            { std::lock_guard<std::mutex> g(g_m); g_flush_other.reset(); }
            g_evals++;
            if (gy != wy) violation(g_opts.get("kp", "c13") + ":server:write-for-another-connection-stranded-by-a-flush", "a write for connection Y was in the shared queue when connection X asked for a flush: Y received " + std::to_string(gy.size()) + " of " + std::to_string(wy.size()) + " bytes within the bound (X received " + std::to_string(gx.size()) + " of " + std::to_string(wx.size()) + ")", g_case);
            else if (gx != wx) violation(g_opts.get("kp", "c13") + ":server:flushed-write-not-delivered", "the write of the connection that asked for the flush did not arrive (" + std::to_string(gx.size()) + " of " + std::to_string(wx.size()) + " bytes)", g_case);
            count("flushes_with_another_connections_write_queued");
        }
        {   // bursts: while the worker is kept away from its loop, far more items pile up in its queues than it usually finds
            // there (new connections in the peers queue, foreign writes in the writes queue); once it is back every one of
            // them must be taken: a consumer that stops draining with items queued has used up the only notification
            int K = r.range(130, 220), Wn = r.chance(1, 3) ? r.range(130, 300) : r.chance(1, 2) ? r.range(300, 900) : r.range(1000, 3000);   // (hundreds to thousands of entries: more than any batch size)
            c.send_all("SLEEP\nSLEEP\n");
            lv::msleep(30);
            std::vector<std::unique_ptr<lv::Conn>> burst; for (int k = 0; k < K; k++) { burst.emplace_back(new lv::Conn()); if (!burst.back()->open_to(srv.port)) { burst.pop_back(); break; } burst.back()->send_all("PING\n"); }
            std::string want; for (int k = 0; k < Wn; k++) { std::string d = tagged(20000 + (unsigned)k, 40); want += d; pb->send(RawBuffer(d, d.size())); }
            std::string gotw; double e2 = lv::now() + 6.0 * lv::load_factor();
            while (gotw.size() < want.size() && lv::now() < e2) b.read_some(gotw, 100, want.size() - gotw.size());
            g_evals++;
            if (gotw != want) violation(g_opts.get("kp", "c13") + ":server:write-burst-not-drained", std::to_string(Wn) + " writes queued from a foreign thread while the worker was busy: " + std::to_string(gotw.size()) + " of " + std::to_string(want.size()) + " bytes arrived within the bound" + (gotw == want.substr(0, gotw.size()) ? " (a prefix: the rest is still queued)" : " (stream differs)"),
                                    Json().num("i", idx).str("phase", "c13-server-burst").num("writes", Wn).num("bytes_received", (long long)gotw.size()).done());
            int answered = 0; double e3 = lv::now() + 6.0 * lv::load_factor();
            for (auto& bc : burst) { std::string pg; while (pg.size() < 5 && lv::now() < e3) bc->read_some(pg, 50, 5 - pg.size()); if (pg == "PONG!") answered++; }
            g_evals++;
            if (answered != (int)burst.size()) violation(g_opts.get("kp", "c13") + ":server:connection-burst-not-drained", std::to_string(burst.size()) + " connections accepted while the worker was busy: only " + std::to_string(answered) + " were registered and answered within the bound",
                                    Json().num("i", idx).str("phase", "c13-server-burst").num("connections", (long long)burst.size()).num("answered", answered).done());
            count("burst_connections", (long)burst.size()); count("burst_writes", Wn);
            std::vector<int> ports; for (auto& bc : burst) ports.push_back(bc->localPort);
            burst.clear();
            lv::msleep(20);
            { std::lock_guard<std::mutex> g(g_m); for (int pt : ports) g_peers.erase(pt); }
        }
    }
    srv.stop();
}

// ------------------------------------------------------------------ C07
static std::atomic<int> g_stream_handler_done{0};
struct BigHandler : public Http::Handler {
    HTTP_PROTOTYPE(BigHandler)
    void onRequest(const Http::Request& req, Http::ResponseWriter response) override {
        if (req.resource() == "/big") {
            size_t n = (size_t)atol(req.query().get("n").value_or("1000").c_str());
            unsigned w = (unsigned)atol(req.query().get("w").value_or("1").c_str());
            int extra = atoi(req.query().get("extra").value_or("0").c_str());
            { lv::Interpose& I = lv::ip(); std::lock_guard<std::mutex> g(I.m); I.fds[response.peer()->fd()]; }
            auto peer = response.peer();
            int chain = atoi(req.query().get("chain").value_or("0").c_str());
            auto sent = response.send(Http::Code::Ok, tagged(w, n));
            // a write issued by the continuation of the blocked one: it can only arrive if that write's completion is reported
            if (chain) sent.then([peer, w](ssize_t) { try { peer->send(RawBuffer(tagged(w + 50, 700), 700)); } catch (...) { } }, Async::IgnoreException);
            // further writes queued behind the blocked one
            for (int k = 0; k < extra; k++) peer->send(RawBuffer(tagged(w + 1 + (unsigned)k, 1000), 1000));
            std::lock_guard<std::mutex> g(g_m); g_peers[peer_port(peer)].fd = peer->fd();
        } else if (req.resource() == "/bigstream") {
            // streamed response flushed chunk by chunk: every flush attempts the socket at once, also when it is already full
            size_t n = (size_t)atol(req.query().get("n").value_or("1000").c_str());
            unsigned w = (unsigned)atol(req.query().get("w").value_or("1").c_str());
            { lv::Interpose& I = lv::ip(); std::lock_guard<std::mutex> g(I.m); I.fds[response.peer()->fd()]; }
            { std::lock_guard<std::mutex> g(g_m); g_peers[peer_port(response.peer())].fd = response.peer()->fd(); }
            std::string all = tagged(w, n);
            auto stream = response.stream(Http::Code::Ok);
            for (size_t pos = 0; pos < n; pos += 65536) { size_t k = std::min<size_t>(65536, n - pos); stream.write(all.data() + pos, (std::streamsize)k); stream << Http::flush; }
            stream << Http::ends;
            g_stream_handler_done++;
        } else if (req.resource() == "/slowstream") {
            // a streamed response that takes its time: one big chunk (the flush would-blocks, the rest is parked), then 120 chunks of 200 bytes
            // 10 ms apart, each flushed - the client starts reading while the handler is still at it, so one of these flushes, not a
            // writable event, completes what was parked
            size_t n = (size_t)atol(req.query().get("n").value_or("100000").c_str());
            unsigned w = (unsigned)atol(req.query().get("w").value_or("1").c_str());
            { lv::Interpose& I = lv::ip(); std::lock_guard<std::mutex> g(I.m); I.fds[response.peer()->fd()]; }
            { std::lock_guard<std::mutex> g(g_m); g_peers[peer_port(response.peer())].fd = response.peer()->fd(); }
            std::string all = tagged(w, n); size_t first = n - 120 * 200;
            auto stream = response.stream(Http::Code::Ok);
            try {
                stream.write(all.data(), (std::streamsize)first); stream << Http::flush;
                for (int k = 0; k < 120; k++) { lv::msleep(10); stream.write(all.data() + first + (size_t)k * 200, 200); stream << Http::flush; }
                stream << Http::ends;
            } catch (const std::exception&) { }
            g_stream_handler_done++;
        } else if (req.resource() == "/bigfile") {
            // a file response (sendfile): the file holds the tagged stream
            { lv::Interpose& I = lv::ip(); std::lock_guard<std::mutex> g(I.m); I.fds[response.peer()->fd()]; }
            { std::lock_guard<std::mutex> g(g_m); g_peers[peer_port(response.peer())].fd = response.peer()->fd(); }
            Http::serveFile(response, req.query().get("f").value_or("/nonexistent"));
        } else if (req.resource() == "/slow") { lv::msleep(atoi(req.query().get("ms").value_or("500").c_str())); response.send(Http::Code::Ok, "pong:/slow"); }
        else response.send(Http::Code::Ok, "pong:" + req.resource());
    }
};
static void run_c07(long cases) {
    lv::ip().enabled = true;
    Rng r(g_opts.seed * 9001 + (uint64_t)g_opts.shard);
    for (long n = 0; n < cases; n++) {
        long idx = g_opts.shard * 100000L + n;
        Http::Endpoint ep(Address(Ipv4::loopback(), Port(0)));
        ep.init(Http::Endpoint::options().threads(1).flags(Tcp::Options::ReuseAddr).maxResponseSize(64u << 20));
        ep.setHandler(Http::make_handler<BigHandler>());
        ep.serveThreaded();
        int port = ep.getPort();
        size_t big = (size_t)r.range(4, 24) << 20;
        int extra = r.range(0, 3);
        int nOthers = r.range(1, 3);
        int when = r.range(0, 2);   // other connections issue their request: 0 during the block, 1 before and during, 2 during, repeatedly
        // 0 fixed response, 1 streamed response flushed per chunk, 2 fixed response + second request from the blocked peer while the worker is busy,
        // 3 file response (sendfile), 4 fixed response + the blocked peer sends the first part of its next request during the stall
        int variant = (int)((n * g_opts.nshards + g_opts.shard) % 7);   // 6 like 4, but the partial request and the start of reading reach a worker that is away: ONE event, readable and writable, and nothing new to write   // 5 streamed response resumed by a later flush of its own handler (the client starts reading while the handler is still flushing)
        double stall = 0.2 + r.below(10) * 0.1;
        // now and then a long stall: a connection whose window stays closed for many seconds is still a connection, and what is pending for it
        // is delivered when it reads again (one scenario per quick run, one in twenty otherwise)
        if ((n == 0 && g_opts.shard == 1) || (n > 0 && (n * g_opts.nshards + g_opts.shard) % 20 == 7)) { stall = 8.5 + r.below(4); count("long_stalls"); }
        std::string wt = Json().num("i", idx).str("phase", "c07").num("big_bytes", (long long)big).num("extra_writes", extra).num("others", nOthers).num("when", when).num("stall_s_x10", (long long)(stall * 10)).done();
        set_case(idx, wt);
        double lf = lv::load_factor();
        lv::Conn a; a.open_to(port, 2048);
        std::vector<std::unique_ptr<lv::Conn>> others;
        for (int k = 0; k < nOthers; k++) { others.emplace_back(new lv::Conn()); others.back()->open_to(port); }
        std::string key;
        auto ping = [&](lv::Conn& c, const std::string& path, double timeout, double* latency) {
            std::string buf; double t0 = lv::now();
            c.send_all("GET " + path + " HTTP/1.1\r\nHost: x\r\nConnection: keep-alive\r\n\r\n");
            lv::HttpMsg m = lv::read_response(c, buf, 0, (int)(timeout * 1000));
            if (latency) *latency = lv::now() - t0;
            return m.complete && m.status == 200 && m.body == "pong:" + path;
        };
        if (when == 1) for (auto& o : others) if (!ping(*o, "/before", 5 * lf, nullptr)) key = "c07:harness:other-connection-not-served-before-block";
        long attempts = 0; double worst = 0;
        if (variant == 5) {
            big = std::min<size_t>(big, 10u << 20);
            a.send_all("GET /slowstream?n=" + std::to_string(big) + "&w=77 HTTP/1.1\r\nHost: x\r\n\r\n");
            int sfd5 = -1;
            wait_for([&] { std::lock_guard<std::mutex> g(g_m); auto it = g_peers.find(a.localPort); if (it == g_peers.end() || it->second.fd < 0) return false; sfd5 = it->second.fd; return true; }, 5 * lf);
            wait_for([&] { lv::Interpose& I = lv::ip(); std::lock_guard<std::mutex> g(I.m); auto it = I.fds.find(sfd5); return it != I.fds.end() && it->second.eagain > 0; }, 3 * lf);
            lv::msleep(300);
            std::string buf; lv::HttpMsg m; double lastProgress = lv::now(), hardEnd = lv::now() + 300; size_t lastSize = 0;
            for (;;) { m = lv::parse_http(buf, 0, true); if (m.complete || !m.error.empty()) break; bool eof = false; if (!a.read_some(buf, 200, 1 << 30, &eof)) break;
                if (buf.size() != lastSize) { lastSize = buf.size(); lastProgress = lv::now(); } else if (lv::now() - lastProgress > 10 * lf || lv::now() > hardEnd) break; }
            if (!m.complete) key = "c07:blocked-peer-not-completed-after-release";
            else if (m.body != tagged(77, big)) key = "c07:blocked-peer-body-corrupt";
            wait_for([&] { return g_stream_handler_done.load() > 0; }, 10 * lf); g_stream_handler_done = 0;
            // the worker has to be alive and attentive afterwards: nothing is pending for A any more, the others are answered, and it does not spin
            long calls0; { lv::Interpose& I = lv::ip(); std::lock_guard<std::mutex> g(I.m); calls0 = I.fds[sfd5].calls; }
            for (int rd = 0; rd < 2 && key.empty(); rd++) for (auto& o : others) { double lat = 0; if (!ping(*o, "/after" + std::to_string(rd), 5.0 * lf, &lat)) { key = "c07:other-connection-starved:after-a-streamed-response-resumed-by-its-own-flush"; break; } worst = std::max(worst, lat); }
            { lv::Interpose& I = lv::ip(); std::lock_guard<std::mutex> g(I.m); attempts = I.fds[sfd5].calls - calls0; }
            if (key.empty() && attempts > 50) key = "c07:busy-wait-on-blocked-peer";
            count("streamed_responses_resumed_while_the_handler_is_flushing");
        }
        if (variant != 5) {
        // A requests the big response and does not read
        std::string bigFile;
        int chain = (variant == 0 && r.chance(1, 2)) ? 1 : 0;
        if (variant == 1) { big = std::min<size_t>(big, 12u << 20); extra = 0; a.send_all("GET /bigstream?n=" + std::to_string(big) + "&w=77 HTTP/1.1\r\nHost: x\r\n\r\n"); }
        else if (variant == 3) { extra = 0; bigFile = g_tmpdir + "/big-" + std::to_string(idx) + ".bin"; { std::string all = tagged(77, big); FILE* f = fopen(bigFile.c_str(), "wb"); if (f) { fwrite(all.data(), 1, all.size(), f); fclose(f); } }
            a.send_all("GET /bigfile?f=" + bigFile + " HTTP/1.1\r\nHost: x\r\n\r\n"); }
        else a.send_all("GET /big?n=" + std::to_string(big) + "&w=77&extra=" + std::to_string(extra) + "&chain=" + std::to_string(chain) + " HTTP/1.1\r\nHost: x\r\n\r\n");
        int sfd = -1;
        wait_for([&] { std::lock_guard<std::mutex> g(g_m); auto it = g_peers.find(a.localPort); if (it == g_peers.end() || it->second.fd < 0) return false; sfd = it->second.fd; return true; }, 5 * lf);
        // wait until the kernel refuses more data (first would-block on A), bounded
        wait_for([&] { lv::Interpose& I = lv::ip(); std::lock_guard<std::mutex> g(I.m); auto it = I.fds.find(sfd); return it != I.fds.end() && it->second.eagain > 0; }, 3 * lf);
        // a streaming handler attempts the socket once per flush: count attempts only once it has returned
        if (variant == 1) { int d0 = 0; wait_for([&] { return g_stream_handler_done.load() > d0; }, 10 * lf); g_stream_handler_done = 0; }
        long eagainBefore, callsBefore; { lv::Interpose& I = lv::ip(); std::lock_guard<std::mutex> g(I.m); eagainBefore = I.fds[sfd].eagain; callsBefore = I.fds[sfd].calls; }
        double t0 = lv::now();
        // while A is blocked the others must be answered
        int rounds = when == 2 ? 3 : 1;
        for (int rd = 0; rd < rounds && key.empty(); rd++)
            for (auto& o : others) { double lat = 0; if (!ping(*o, "/during" + std::to_string(rd), 5.0 * lf, &lat)) { key = "c07:other-connection-starved"; break; } worst = std::max(worst, lat); }
        double remain = stall - (lv::now() - t0); if (remain > 0) lv::msleep((int)(remain * 1000));
        long eagainAfter, callsAfter; { lv::Interpose& I = lv::ip(); std::lock_guard<std::mutex> g(I.m); eagainAfter = I.fds[sfd].eagain; callsAfter = I.fds[sfd].calls; }
        attempts = callsAfter - callsBefore;
        g_counts["max_write_attempts_while_blocked"] = std::max(g_counts["max_write_attempts_while_blocked"], attempts);
        // correct code: at most one attempt per writable edge; A never drains, so no more than a handful
        if (key.empty() && attempts > 50) { key = "c07:busy-wait-on-blocked-peer"; wt = Json().num("i", idx).str("phase", "c07").num("write_attempts_while_blocked", attempts).num("would_block_results", eagainAfter - eagainBefore).num("stall_ms", (long long)(stall * 1000)).done(); }
        std::thread slowThread; std::string prebuf;
        if (key.empty() && variant == 2) {
            // the stall ends (A starts reading) and A's next request arrives while the worker is away from its event loop:
            // both readiness changes reach the worker in ONE event
            lv::Conn* o = others[0].get();
            slowThread = std::thread([o] { std::string b; o->send_all("GET /slow?ms=700 HTTP/1.1\r\nHost: x\r\n\r\n"); lv::read_response(*o, b, 0, 8000); });
            lv::msleep(150);
            a.send_all("GET /second HTTP/1.1\r\nHost: x\r\n\r\n");
        }
        if (key.empty() && variant == 6) {
            // the worker is away in another connection's handler; meanwhile the blocked peer sends the beginning of its next request (input
            // that completes nothing, so nothing new is queued for it) and starts reading: when the worker comes back it finds the connection
            // readable and writable in ONE event, and the writable half is all that will ever tell it to go on writing
            lv::Conn* o = others[0].get();
            slowThread = std::thread([o] { std::string b; o->send_all("GET /slow?ms=700 HTTP/1.1\r\nHost: x\r\n\r\n"); lv::read_response(*o, b, 0, 8000); });
            lv::msleep(150);
            a.send_all("GET /sec");
            { std::string part; a.read_some(part, 350, 200000); prebuf = part; }   // reading starts while the worker is still away
        }
        if (key.empty() && variant == 4) {
            // input from the blocked peer that completes no request (nothing is queued in answer): it must not use up the
            // worker's interest in the descriptor becoming writable
            a.send_all("GET /sec"); lv::msleep(100);
        }
        // release: A reads everything
        if (key.empty()) {
            std::string buf = prebuf; lv::HttpMsg m;
            // judged on progress, not on a total duration: the peer gives up only when nothing at all has arrived for 10 s x load (or after 5 minutes);
            // on a busy machine 24 MiB through a 2 KiB receive buffer take their time (a thorough run under a load of 60 overran a fixed bound)
            double lastProgress = lv::now(), hardEnd = lv::now() + 300; size_t lastSize = buf.size();
            for (;;) { m = lv::parse_http(buf, 0, true); if (m.complete || !m.error.empty()) break; bool eof = false; if (!a.read_some(buf, 200, 1 << 30, &eof)) break;
                if (buf.size() != lastSize) { lastSize = buf.size(); lastProgress = lv::now(); } else if (lv::now() - lastProgress > 10 * lf || lv::now() > hardEnd) break; }
            if (!m.complete) key = "c07:blocked-peer-not-completed-after-release";
            else if (m.body != tagged(77, big)) key = "c07:blocked-peer-body-corrupt";
            else if (variant == 2 || variant == 4 || variant == 6) {
                if (variant == 4 || variant == 6) a.send_all("ond HTTP/1.1\r\nHost: x\r\n\r\n");
                size_t off = m.consumed + (size_t)extra * 1000; double d2 = lv::now() + 10 * lf; lv::HttpMsg m2;
                for (;;) { m2 = buf.size() >= off ? lv::parse_http(buf, off, true) : lv::HttpMsg(); if (m2.complete || !m2.error.empty() || lv::now() > d2) break; a.read_some(buf, 100); }
                if (!m2.complete || m2.body != "pong:/second") key = "c07:request-sent-during-the-stall-never-answered";
            }
            else if (extra || chain) {
                size_t want = m.consumed + (size_t)extra * 1000 + (chain ? 700 : 0); double d2 = lv::now() + 5 * lf;
                while (buf.size() < want && lv::now() < d2) a.read_some(buf, 100);
                std::string tail = buf.substr(m.consumed), exp; for (int k = 0; k < extra; k++) exp += tagged(78 + (unsigned)k, 1000);
                if (chain) exp += tagged(77 + 50, 700);
                if (tail != exp) key = tail == exp.substr(0, tail.size()) && chain && tail.size() == (size_t)extra * 1000 ? "c07:write-chained-on-the-blocked-write-never-issued" : "c07:writes-queued-behind-blocked-one-lost-or-reordered";
            }
        }
        if (slowThread.joinable()) slowThread.join();
        if (!bigFile.empty()) unlink(bigFile.c_str());
        }
        g_evals++;
        if (!key.empty()) violation(key, key.substr(4) + " [variant " + std::to_string(variant) + "] (worst latency of other connections " + std::to_string(worst) + " s)", wt);
        g_distinct.add(std::to_string(variant) + "|" + std::to_string(big >> 20) + "|" + std::to_string(extra) + "|" + std::to_string(nOthers) + "|" + std::to_string(when) + "|" + std::to_string((int)(stall * 10)));
        count("scenarios"); count("variant_" + std::to_string(variant));
        g_counts["worst_other_latency_ms"] = std::max<long>(g_counts["worst_other_latency_ms"], (long)(worst * 1000));
        if (g_samples_left > 0) { g_samples_left--; sample(Json().num("big_bytes", (long long)big).num("others", nOthers).num("write_attempts_while_blocked", attempts).num("worst_other_latency_ms", (long long)(worst * 1000)).done()); }
        a.close_now(); others.clear();
        ep.shutdown();
        { std::lock_guard<std::mutex> g(g_m); g_peers.clear(); }
    }
}

int main(int argc, char** argv) {
    g_opts = parse_opts(argc, argv);
#if LV_INTERPOSE
    lv::ip().pollDelayMaxMs = (int)g_opts.num("poll-delay", 0);   // see live.h: loop threads come back to their pollers late
#endif
    install_handlers();
    char tmpl[] = "wtmp-XXXXXX";   // inside the check's scratch directory (cwd)
    g_tmpdir = mkdtemp(tmpl);
    std::string prop = g_opts.get("prop", "c06");
    if (prop == "c06") run_c06(g_opts.cases); else if (prop == "c13s") run_c13s(g_opts.cases); else run_c07(g_opts.cases);
    rmdir(g_tmpdir.c_str());
    g_distinct.flush();
    Json s; s.str("t", "sum").num("evaluations", g_evals);
#if LV_INTERPOSE
    if (lv::ip().pollDelays.load()) g_counts["poll_delays_injected"] = lv::ip().pollDelays.load();
#endif
    Json c; for (auto& kv : g_counts) c.num(kv.first, kv.second);
    s.raw("counts", c.done());
    emit(s.done());
    _exit(0);
}
