// libFuzzer target (thorough tier of C03): byte 0 selects the entry point, byte 1 the delivery
// (whole / bytewise / cut positions taken from the following bytes), the rest is the input.
#include <pistache/base64.h>
#include <pistache/cookie.h>
#include <pistache/http.h>
#include <pistache/http_headers.h>
#include <pistache/mime.h>
#include <pistache/net.h>
#include <cstdint>
#include <cstring>
#include <string>
#include <vector>
#include <sstream>

using namespace Pistache;
template <class P> static void drive(const uint8_t* d, size_t n, int mode) {
    P parser(4096);
    try {
        if (mode == 0) { if (parser.feed((const char*)d, n)) parser.parse(); }
        else if (mode == 1) { for (size_t i = 0; i < n; i++) { if (!parser.feed((const char*)d + i, 1)) break; if (parser.parse() == Http::Private::State::Done) break; } }
        else {
            size_t pos = 0; unsigned step = 1 + (mode % 13);
            while (pos < n) { size_t k = std::min<size_t>(n - pos, step); if (!parser.feed((const char*)d + pos, k)) break; if (parser.parse() == Http::Private::State::Done) break; pos += k; step = 1 + (step * 7 + 3) % 29; }
        }
    } catch (const std::exception&) { }
}
static std::vector<std::string> names() { static std::vector<std::string> v = [] { auto x = Http::Header::Registry::instance().headersList(); std::sort(x.begin(), x.end()); return x; }(); return v; }
extern "C" int LLVMFuzzerTestOneInput(const uint8_t* data, size_t size) {
    if (size < 2) return 0;
    int entry = data[0], mode = data[1];
    data += 2; size -= 2;
    // exact-size heap copy: over-reads are heap-buffer-overflows
    char* buf = new char[size ? size : 1]; if (size) memcpy(buf, data, size);
    try {
        switch (entry % 8) {
        case 0: drive<Http::RequestParser>((const uint8_t*)buf, size, mode); break;
        case 1: drive<Http::ResponseParser>((const uint8_t*)buf, size, mode); break;
        case 2: { auto n = names(); auto h = Http::Header::Registry::instance().makeHeader(n[(size_t)mode % n.size()]); h->parseRaw(buf, size); std::ostringstream os; h->write(os); break; }
        case 3: { auto c = Http::Cookie::fromRaw(buf, size); std::ostringstream os; os << c; break; }
        case 4: { Http::CookieJar j; j.addFromRaw(buf, size); for (auto it = j.begin(); it != j.end(); ++it) (void)it->name; break; }
        case 5: { auto m = Http::Mime::MediaType::fromRaw(buf, size); (void)m.toString(); break; }
        case 6: { std::string s(buf, size); bool numeric = true; for (char c : s) if ((isalpha((unsigned char)c) && !isxdigit((unsigned char)c)) || (unsigned char)c >= 0x80 || c == 0) numeric = false; if (mode & 1) { Port p(s); (void)p; } else if (numeric) { Address a(s); (void)a.host(); } break; }
        default: { std::string s(buf, size); Base64Decoder d(s); d.Decode(); break; }
        }
    } catch (const std::exception&) { } catch (...) { }
    delete[] buf;
    return 0;
}
