# C01 (segmentation independence), C04 (successive messages), C03 (hostile input) at parser level.
import os, sys, json, shutil
sys.path.insert(0, os.path.join(os.path.dirname(os.path.abspath(__file__)), "..", "lib"))
import vlib

def _replay(pid, path):
    w = json.load(open(path))
    wit = w.get("witness") or {}
    case = wit.get("case", wit) if isinstance(wit, dict) else {}
    if not isinstance(case, dict) or "hex" not in case:
        print("witness has no replayable parser case"); return 2
    binary = vlib.build_harness("parser", "plain")
    args = [binary, "--mode", "replay", "--hex", case["hex"], "--kind", case.get("kind", "req"),
            "--cuts", ",".join(str(c) for c in case.get("cuts", [])), "--limit", str(case.get("limit", 65536))]
    r = vlib.run_proc(args, timeout=60)
    print(r["out"])
    if r["timed_out"] or r["rc"] not in (0, 1):
        print("VIOLATION property=%s replay=%s" % (pid, path)); return 1
    if r["rc"] == 1:
        print("VIOLATION property=%s replay=%s" % (pid, path)); return 1
    return 0

def run(pid, tier, seed, replay=None):
    if replay:
        return _replay(pid, replay)
    return {"C01": run_c01, "C04": run_c04, "C03": run_c03}[pid](tier, seed)

def _finish(v, work, counters, distinct, samples, stats, rule, extra=None):
    cov = dict(evaluations=int(counters.get("evaluations", 0)), distinct_nontrivial=len(distinct), rule=rule, samples=samples[:8],
               monitor_counts=counters.get("counts", {}), **stats)
    if extra:
        cov.update(extra)
    v.coverage.update(cov)
    rc = v.finish()
    shutil.rmtree(work, ignore_errors=True)
    return rc

def run_c01(tier, seed):
    v = vlib.Verdict("C01", tier, seed, level="exploration")
    work = vlib.scratch_dir("C01")
    nsh = vlib.NCPU
    cases = 24 if tier == "quick" else 1500           # messages per shard
    binary = vlib.build_harness("parser", "plain")
    res = vlib.run_resumable(binary, ["--prop", "c01", "--seed", str(seed), "--cases", str(cases), "--multi", "32"], nsh,
                             timeout=300 if tier == "quick" else 7200, work=work)
    counters, distinct, samples, stats = vlib.collect_runs(v, res)
    # second pass of a sample under ASan+UBSan (same inputs, fewer messages)
    abin = vlib.build_harness("parser", "asan")
    res2 = vlib.run_resumable(abin, ["--prop", "c01", "--seed", str(seed), "--cases", str(max(2, cases // 8)), "--multi", "8"], nsh,
                              timeout=300 if tier == "quick" else 7200, work=work, env=vlib.SAN_ENV_EXPLORE, tag="a")
    c2, d2, s2, st2 = vlib.collect_runs(v, res2)
    stats["asan_pass"] = dict(evaluations=int(c2.get("evaluations", 0)), **st2)
    sbin = vlib.build_harness("server", "plain")
    res3 = vlib.run_resumable(sbin, ["--prop", "seg", "--seed", str(seed), "--cases", str(10 if tier == "quick" else 400)], 6,
                              timeout=300 if tier == "quick" else 7200, work=work, tag="s")
    c3, d3, s3, st3 = vlib.collect_runs(v, res3, only_prefix="c01:")
    distinct |= {x for x in d3}
    stats["server_level"] = dict(exchanges=int(c3.get("counts", {}).get("c01_server_level", 0)), **st3)
    extra = dict(cut_classes_hit=sorted(counters.get("cutclasses", [])), n_cut_classes=len(counters.get("cutclasses", [])))
    v.assumptions += ["reference = the same parser fed the whole message at once (differential)", "messages come from harness/msggen.h (RFC 7230 grammar + near-well-formed variants), parser limit 64 KiB so the size limit is not in play"]
    return _finish(v, work, counters, distinct, samples, stats,
                   "per generated message of n bytes: all n-1 single cuts, the byte-by-byte delivery and 32 sampled multi-cut sets, each on a fresh parser, compared with whole delivery (state per piece, parsed-message snapshot, error status, CPU-time budget per delivery). distinct = (message shape, grammar-role pair at the cut) and multi-cut role signatures",
                   extra)

def run_c04(tier, seed):
    v = vlib.Verdict("C04", tier, seed, level="exploration")
    work = vlib.scratch_dir("C04")
    nsh = vlib.NCPU
    cases = 1500 if tier == "quick" else 120000
    binary = vlib.build_harness("parser", "plain")
    res = vlib.run_resumable(binary, ["--prop", "c04", "--seed", str(seed), "--cases", str(cases)], nsh, timeout=300 if tier == "quick" else 7200, work=work)
    counters, distinct, samples, stats = vlib.collect_runs(v, res)
    abin = vlib.build_harness("parser", "asan")
    res2 = vlib.run_resumable(abin, ["--prop", "c04", "--seed", str(seed + 1000), "--cases", str(max(10, cases // 10))], nsh,
                              timeout=300 if tier == "quick" else 7200, work=work, env=vlib.SAN_ENV_EXPLORE, tag="a")
    c2, d2, s2, st2 = vlib.collect_runs(v, res2)
    distinct |= d2
    stats["asan_pass"] = dict(evaluations=int(c2.get("evaluations", 0)), **st2)
    sbin = vlib.build_harness("server", "plain")
    res3 = vlib.run_resumable(sbin, ["--prop", "seg", "--seed", str(seed + 3), "--cases", str(10 if tier == "quick" else 400)], 6,
                              timeout=300 if tier == "quick" else 7200, work=work, tag="s")
    c3, d3, s3, st3 = vlib.collect_runs(v, res3, only_prefix="c04:")
    distinct |= d3
    stats["server_level"] = dict(keepalive_exchanges=int(c3.get("counts", {}).get("c04_server_level", 0)), **st3)
    v.assumptions += ["reset protocol as the framework applies it: reset() after Done, after any exception, after a refused feed (413); the client moves the response out before reset()",
                      "no pipelining: segments never span two messages"]
    return _finish(v, work, counters, distinct, samples, stats,
                   "sequences of 2-5 generated messages (bodyless / Content-Length / chunked, well-formed or near-well-formed, bodies sometimes beyond the parser limit so that the predecessor is abandoned mid-body by 413) on ONE parser in random segmentation, each compared with the same message and segmentation on a fresh parser. distinct = (parser kind, how the predecessor ended, successor shape, outcome)")

def run_c03(tier, seed):
    v = vlib.Verdict("C03", tier, seed, level="exploration")
    work = vlib.scratch_dir("C03")
    nsh = vlib.NCPU
    cases = 12000 if tier == "quick" else 400000
    abin = vlib.build_harness("parser", "asan")
    res = vlib.run_resumable(abin, ["--prop", "c03", "--seed", str(seed), "--cases", str(cases)], nsh, timeout=300 if tier == "quick" else 7200,
                             work=work, env=vlib.SAN_ENV_EXPLORE, tag="a")
    counters, distinct, samples, stats = vlib.collect_runs(v, res)
    # allocation monitor + CPU budget pass in the plain flavour (replaced operator new)
    pbin = vlib.build_harness("parser", "plain")
    res2 = vlib.run_resumable(pbin, ["--prop", "c03", "--seed", str(seed), "--cases", str(cases)], nsh, timeout=300 if tier == "quick" else 7200, work=work, tag="p")
    c2, d2, s2, st2 = vlib.collect_runs(v, res2)
    stats["alloc_pass"] = dict(evaluations=int(c2.get("evaluations", 0)), monitor_counts=c2.get("counts", {}), **st2)
    counters["evaluations"] = counters.get("evaluations", 0) + c2.get("evaluations", 0)
    sabin = vlib.build_harness("server", "asan")
    res3 = vlib.run_resumable(sabin, ["--prop", "c03s", "--seed", str(seed), "--cases", str(40 if tier == "quick" else 1500)], 8,
                              timeout=300 if tier == "quick" else 7200, work=work, env=vlib.SAN_ENV_EXPLORE, tag="s")
    c3, d3, s3, st3 = vlib.collect_runs(v, res3)
    distinct |= d3
    counters["evaluations"] = counters.get("evaluations", 0) + c3.get("evaluations", 0)
    stats["server_level"] = dict(hostile_inputs=int(c3.get("evaluations", 0)), monitor_counts=c3.get("counts", {}), **st3)
    v.assumptions += ["memory bound judged per parser: largest single request <= 2*limit+1KiB, peak live <= 4*limit+8KiB (plain flavour, replaced operator new)",
                      "server level: 1-worker ASan endpoint, hostile bytes in random TCP segments on one connection, a keep-alive probe on another connection must be answered after every input (5 s x load bound, confirmed on a fresh connection)"]
    return _finish(v, work, counters, distinct, samples, stats,
                   "mutations of generated messages (bit flips, deletions, duplicated tokens, overlong numbers, lone CR/LF, doubled/missing separators, NUL/high bytes, truncation, injected framing headers), grammar-directed garbage and valid messages, each delivered whole, byte-wise and randomly cut to RequestParser/ResponseParser with limits 64/256/4096; every registered header parser, Cookie, CookieJar, MediaType, Address, Port, Base64 from guard-page buffers. Oracles: ASan+UBSan(+vector annotations), 2 s CPU budget per delivery, allocation monitor. distinct = (entry point, origin class, outcome, input hash%8192)")
