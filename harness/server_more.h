// further modes of harness/server.cc: c05, seg (C01/C04 at server level), c03s, c10l
#include "routemodel.h"
#include <fstream>

// (one tag in eight gives a body of 0xFF octets only: the octet that reads as EOF when a char is widened carelessly sits on every buffer boundary)
static inline unsigned char tagb(unsigned w, size_t j) { if ((w & 7u) == 7u) return 0xFF; uint32_t x = (uint32_t)(j * 2654435761u) ^ (w * 40503u + 0x9e37u); return (unsigned char)((x >> 13) ^ (x >> 3) ^ w); }
static std::string tagged_body(unsigned w, size_t n, bool textual) { std::string s(n, '\0'); for (size_t j = 0; j < n; j++) { unsigned char c = tagb(w, j); s[j] = (char)(textual ? 'a' + c % 26 : c); } return s; }

// =====================================================================================
// C05
struct Recipe {
    int kind = 0;                 // 0 fixed, 1 stream, 2 an existing file through serveFile, 3 serveFile on a file that does not exist: the handler catches the error and answers itself
    bool bigFile = false;
    int code = 200;
    std::vector<std::pair<std::string, std::string>> headers;   // typed headers by name -> value text
    std::vector<std::pair<std::string, std::string>> cookies;
    size_t bodyLen = 0; unsigned tag = 1;
    std::vector<long> chunks;     // stream: sizes; -1 = an integer value written with operator<<, -2 = c-string literal, -3 = a text in a larger char array
    std::vector<int> flushAfter;  // stream: flush after chunk i?
    bool viaClone = false;        // fixed: the handler answers on a clone() of the writer it was handed
    int te = 0;                   // stream: the handler announces a transfer coding of its own before it asks for the stream (1 gzip, 2 deflate, 3 compress)
    int moveAt = -1;              // stream: the ResponseStream object is moved (to the heap) before chunk moveAt is written (-1: never)
    // filled by the handler
    std::atomic<int> ran{0}; std::atomic<int> fulfilled{0}, rejected{0}; std::atomic<long> promiseValue{-1}; std::atomic<long> reportedSize{-1};
    std::atomic<int> threw{0};
};
static std::map<std::string, Recipe*> g_recipes;
// an application-defined header, as the API invites (Header + NAME + Registry): its writer prints an id in hexadecimal and leaves the stream in
// that mode - legitimate as long as every part of the head is formatted on its own; nothing after it may come out in hexadecimal
class XTraceId : public Http::Header::Header {
public:
    NAME("X-Trace-Id")
    XTraceId() = default; explicit XTraceId(unsigned long id) : id_(id) {}
    void parse(const std::string& data) override { id_ = strtoul(data.c_str(), nullptr, 16); }
    void write(std::ostream& os) const override { os << std::hex << std::uppercase << id_; }
    unsigned long id_ = 0;
};
static std::string c05_file(bool big) {   // files served by the file recipes (made once per process, in the scratch directory of the run)
    static std::string small = [] { std::string p = "c05-file-s-" + std::to_string(getpid()) + ".bin"; FILE* f = fopen(p.c_str(), "wb"); if (f) { std::string d = tagged_body(7, 1234, false); fwrite(d.data(), 1, d.size(), f); fclose(f); } return p; }();
    static std::string large = [] { std::string p = "c05-file-l-" + std::to_string(getpid()) + ".bin"; FILE* f = fopen(p.c_str(), "wb"); if (f) { std::string d = tagged_body(9, 300000, false); fwrite(d.data(), 1, d.size(), f); fclose(f); } return p; }();
    return big ? large : small;
}
static const int CODES[] = {299, 450, 598, 204, 304, 200, 201, 202, 203, 206, 301, 302, 400, 401, 403, 404, 405, 409, 410, 418, 422, 429, 500, 501, 503, 511, 599};
static void apply_headers(Http::ResponseWriter& response, const Recipe& rc) {
    using namespace Http::Header;
    for (auto& h : rc.headers) {
        if (h.first == "Server") response.headers().add<Server>(h.second);
        else if (h.first == "Location") response.headers().add<Location>(h.second);
        else if (h.first == "Content-Encoding") response.headers().add<ContentEncoding>(Encoding::Identity);
        else if (h.first == "Access-Control-Allow-Origin") response.headers().add<AccessControlAllowOrigin>(h.second);
        else if (h.first == "Cache-Control") response.headers().add<CacheControl>(Http::CacheDirective(Http::CacheDirective::MaxAge, std::chrono::seconds(atol(h.second.c_str() + 8))));
        else if (h.first == "User-Agent") response.headers().add<UserAgent>(h.second);
        else if (h.first == "Access-Control-Allow-Headers") response.headers().add<AccessControlAllowHeaders>(h.second);
        else if (h.first == "X-Trace-Id") response.headers().add<XTraceId>(strtoul(h.second.c_str(), nullptr, 16));
    }
    for (auto& c : rc.cookies) response.cookies().add(Http::Cookie(c.first, c.second));
    if (rc.kind == 1 && rc.te) response.headers().add<TransferEncoding>(rc.te == 1 ? Encoding::Gzip : rc.te == 2 ? Encoding::Deflate : Encoding::Compress);
}
struct RecipeHandler : public Http::Handler {
    HTTP_PROTOTYPE(RecipeHandler)
    void onRequest(const Http::Request& req, Http::ResponseWriter response) override {
        Recipe* rc = nullptr;
        { std::lock_guard<std::mutex> g(g_m); auto it = g_recipes.find(req.resource()); if (it != g_recipes.end()) rc = it->second; }
        if (!rc) { response.send(Http::Code::Ok, "ping"); return; }
        rc->ran++;
        try {
            apply_headers(response, *rc);
            if (rc->kind == 2) {
                auto p = Http::serveFile(response, c05_file(rc->bigFile));
                p.then([rc](ssize_t v) { rc->promiseValue = (long)v; rc->fulfilled++; }, [rc](std::exception_ptr) { rc->rejected++; });
            } else if (rc->kind == 3) {
                try { Http::serveFile(response, "c05-no-such-file.bin"); rc->threw++; }
                catch (const Http::HttpError&) {
                    std::string body = tagged_body(rc->tag, rc->bodyLen, false);
                    auto p = response.send((Http::Code)rc->code, body.data(), body.size());
                    p.then([rc](ssize_t v) { rc->promiseValue = (long)v; rc->fulfilled++; }, [rc](std::exception_ptr) { rc->rejected++; });
                    rc->reportedSize = (long)response.getResponseSize();
                }
            } else if (rc->kind == 0) {
                std::string body = tagged_body(rc->tag, rc->bodyLen, false);
                if (rc->viaClone) {
                    auto w2 = response.clone();
                    auto p = w2.send((Http::Code)rc->code, body.data(), body.size());
                    p.then([rc](ssize_t v) { rc->promiseValue = (long)v; rc->fulfilled++; }, [rc](std::exception_ptr) { rc->rejected++; });
                    rc->reportedSize = (long)w2.getResponseSize();
                } else {
                auto p = response.send((Http::Code)rc->code, body.data(), body.size());
                p.then([rc](ssize_t v) { rc->promiseValue = (long)v; rc->fulfilled++; }, [rc](std::exception_ptr) { rc->rejected++; });
                rc->reportedSize = (long)response.getResponseSize();
                }
            } else {
                auto first = response.stream((Http::Code)rc->code);
                std::unique_ptr<Http::ResponseStream> moved;
                Http::ResponseStream* st = &first;
                for (size_t i = 0; i <= rc->chunks.size(); i++) {
                    // handlers commonly keep a stream for later (moved into a closure or onto the heap) with bytes still unflushed
                    if ((int)i == rc->moveAt) { moved.reset(new Http::ResponseStream(std::move(*st))); st = moved.get(); }
                    if (i == rc->chunks.size()) break;
                    Http::ResponseStream& stream = *st;
                    long n = rc->chunks[i];
                    if (n == -1) stream << (int)(1000 + (int)i * 101);
                    else if (n == -2) stream << "literal-chunk";
                    else if (n == -3) { char line[48]; memset(line, '#', sizeof line); snprintf(line, sizeof line, "row-%d;", (int)i * 7 + 3); stream << line; }   // a text in a larger char array, as a handler formats it
                    else { std::string d = tagged_body(rc->tag + (unsigned)i, (size_t)n, false); stream.write(d.data(), (std::streamsize)d.size()); }
                    if (rc->flushAfter[i]) stream << Http::flush;
                }
                (*st) << Http::ends;
                rc->fulfilled++;
            }
        } catch (const std::exception&) { rc->threw++; }
    }
};
static std::string expected_stream_body(const Recipe& rc) {
    std::string b;
    for (size_t i = 0; i < rc.chunks.size(); i++) { long n = rc.chunks[i]; if (n == -1) b += std::to_string(1000 + (int)i * 101); else if (n == -2) b += "literal-chunk"; else if (n == -3) b += "row-" + std::to_string((int)i * 7 + 3) + ";"; else b += tagged_body(rc.tag + (unsigned)i, (size_t)n, false); }
    return b;
}
static void gen_recipe(Rng& r, Recipe& rc, bool allowStream) {
    rc.kind = allowStream && r.chance(1, 3) ? 1 : 0;
    if (allowStream && r.chance(1, 12)) { rc.kind = r.chance(1, 2) ? 2 : 3; rc.bigFile = r.chance(1, 3); }
    rc.code = r.pick(CODES);
    static const char* HN[] = {"Server", "Location", "Content-Encoding", "Access-Control-Allow-Origin", "Cache-Control", "User-Agent", "Access-Control-Allow-Headers", "X-Trace-Id"};
    int nh = r.range(0, 6); std::set<std::string> used;
    for (int i = 0; i < nh; i++) { std::string n = r.pick(HN); if (!used.insert(n).second) continue;
        std::string v = n == "X-Trace-Id" ? [&] { char b[24]; snprintf(b, sizeof b, "%lX", (unsigned long)(0xA0 + r.below(0xFFFFF))); return std::string(b); }() : n == "Content-Encoding" ? "identity" : n == "Cache-Control" ? "max-age=" + std::to_string(r.range(0, 99999)) : n == "Location" ? "/" + mg::tok(r, 1, 20, mg::PATHCH) : mg::tok(r, 1, 24, mg::TOKCH);
        rc.headers.push_back({n, v}); }
    int nc = r.range(0, 4); std::set<std::string> cn;
    // names may repeat (a jar keeps several cookies of one name as long as their values differ); (name, value) pairs are unique
    for (int i = 0; i < nc; i++) { std::string n = (!rc.cookies.empty() && r.chance(1, 3)) ? rc.cookies[r.below(rc.cookies.size())].first : mg::tok(r, 1, 6, mg::CKNAME); std::string v = mg::tok(r, 0, 10, mg::CKVAL); if (!cn.insert(n + "=" + v).second) continue; rc.cookies.push_back({n, v}); }
    rc.tag = (unsigned)r.range(1, 200);
    rc.viaClone = r.chance(1, 3);
    // 204 / 304 carry no body by definition: only the empty fixed body is generated for them, where every reading of the framing agrees
    if (rc.kind == 2) rc.code = 200;   // (serveFile answers 200)
    if (rc.kind == 3) { rc.bodyLen = (rc.code == 204 || rc.code == 304) ? 0 : (size_t)r.range(0, 600); return; }
    if (rc.kind == 2) { rc.cookies.clear(); return; }   // (serveFile writes the status line and the headers, not the response's cookies: observed, not judged - the statement speaks of the writer and the stream)
    if (rc.code == 204 || rc.code == 304) rc.kind = 0;
    if (rc.kind == 0 && (rc.code == 204 || rc.code == 304)) { rc.bodyLen = 0; }
    else if (rc.kind == 0) {
        int w = r.range(0, 5);
        if (w == 0) rc.bodyLen = (size_t)r.range(0, 3);
        else if (w <= 3) { size_t p = 512u << r.below(10); long d = r.range(-300, 64); rc.bodyLen = (size_t)std::max<long>(0, (long)p + d); }   // around buffer doublings (head included)
        else rc.bodyLen = (size_t)r.range(0, 70000);
    } else {
        int nch = r.range(0, 8);
        static const long SZ[] = {1, 15, 16, 17, 255, 256, 257, 4095, 4096, 4097, 65535, 65536, 65537};
        rc.moveAt = r.chance(1, 2) ? r.range(0, nch) : -1;
        rc.te = r.chance(1, 5) ? r.range(1, 3) : 0;
        for (int i = 0; i < nch; i++) { int w = r.range(0, 9); long n = w <= 5 ? r.pick(SZ) : w == 6 ? -1 : w == 7 ? (r.chance(1, 2) ? -2 : -3) : w == 8 ? 0 : r.range(1, 3000); rc.chunks.push_back(n); rc.flushAfter.push_back(r.chance(1, 2)); }
        // the next lengths of the size line: six hex digits from 1 MiB on, seven from 16 MiB on (one such chunk per recipe at most)
        if (nch > 0 && r.chance(1, 10)) { static const long BIG[] = {1048575, 1048576, 1048577}; rc.chunks[(size_t)r.below((uint64_t)nch)] = r.pick(BIG); }
        else if (nch > 0 && r.chance(1, 60)) { static const long HUGE_[] = {16777215, 16777216}; rc.chunks[(size_t)r.below((uint64_t)nch)] = r.pick(HUGE_); }
    }
}
static std::string recipe_text(const Recipe& rc) {
    std::string s = std::string(rc.kind == 2 ? (rc.bigFile ? "file-300000" : "file-1234") : rc.kind == 3 ? "missing-file-then-own-answer" : rc.kind ? "stream" : rc.viaClone ? "fixed-via-clone" : "fixed") + " code=" + std::to_string(rc.code) + " headers=" + std::to_string(rc.headers.size()) + " cookies=" + std::to_string(rc.cookies.size());
    if (rc.kind == 1 && rc.te) s += std::string(" own-transfer-coding=") + (rc.te == 1 ? "gzip" : rc.te == 2 ? "deflate" : "compress");
    if (rc.kind == 2) return s; if (rc.kind == 0 || rc.kind == 3) s += " body=" + std::to_string(rc.bodyLen); else { s += " moveAt=" + std::to_string(rc.moveAt) + " chunks="; for (size_t i = 0; i < rc.chunks.size(); i++) s += std::to_string(rc.chunks[i]) + (rc.flushAfter[i] ? "f," : ","); }
    return s;
}
// one exchange; returns the violation key ("" = fine); out: message + bytes on the wire
static std::string c05_exchange(int port, const std::string& id, Recipe& rc, lv::HttpMsg& m, size_t& wireBytes, bool expectRefused, std::string& detail) {
    lv::Conn c; if (!c.open_to(port)) return "harness:connect";
    double lf = lv::load_factor();
    std::string buf;
    c.send_all("GET " + id + " HTTP/1.1\r\nHost: x\r\nConnection: keep-alive\r\n\r\n");
    if (expectRefused) {
        // nothing of the refused response may be emitted: the next request on this connection is answered with no stray byte in front
        wait_for([&] { return rc.ran.load() > 0 && (rc.rejected.load() + rc.fulfilled.load() + rc.threw.load()) > 0; }, 3 * lf);
        c.send_all("GET /ping HTTP/1.1\r\nHost: x\r\n\r\n");
        m = lv::read_response(c, buf, 0, (int)(4000 * lf));
        if (rc.fulfilled.load()) return "c05:limit:over-limit-response-not-refused";
        if (!rc.rejected.load() && !rc.threw.load()) return "c05:limit:send-promise-not-rejected";
        if (!m.complete) { detail = m.error; return "c05:limit:bytes-emitted-for-refused-response"; }
        if (m.status != 200 || m.body != "ping") { detail = "first bytes after the refusal: " + buf.substr(0, 80); return "c05:limit:bytes-emitted-for-refused-response"; }
        return "";
    }
    m = lv::read_response(c, buf, 0, (int)(6000 * lf + rc.bodyLen / 2e4));
    std::string kd = rc.kind == 1 ? "stream" : rc.kind == 2 ? "file" : rc.kind == 3 ? "own-answer-after-failed-file" : "fixed";
    if (!m.complete) { detail = m.error + " after " + std::to_string(buf.size()) + " bytes: " + buf.substr(0, 120); return "c05:" + kd + ":" + (m.error.rfind("timeout", 0) == 0 || m.error.rfind("closed", 0) == 0 ? "incomplete-message" : "grammar"); }
    wireBytes = m.consumed;
    if (m.status != rc.code) { detail = "status " + std::to_string(m.status); return "c05:" + kd + ":status-code"; }
    for (auto& h : rc.headers) {
        int n = m.count(h.first);
        if (n != 1) { detail = h.first + " appears " + std::to_string(n) + " times"; return "c05:" + kd + ":header-" + (n == 0 ? "missing" : "doubled"); }
        if (m.header(h.first) != h.second) { detail = h.first + ": '" + m.header(h.first) + "' want '" + h.second + "'"; return "c05:" + kd + ":header-value"; }
    }
    std::map<std::string, int> seen; for (auto& h : m.headers) { std::string l; for (char ch : h.first) l += (char)tolower((unsigned char)ch); if (l != "set-cookie") seen[l]++; }
    for (auto& kv : seen) if (kv.second > 1 && !(kv.first == "transfer-encoding" && rc.kind == 1 && rc.te)) { detail = kv.first; return "c05:" + kd + ":header-doubled"; }
    if (rc.kind == 1 && rc.te) {   // the coding the handler announced appears once, in front of the framework's chunked
        std::string want = rc.te == 1 ? "gzip" : rc.te == 2 ? "deflate" : "compress";
        if (std::count(m.codings.begin(), m.codings.end(), want) != 1) { detail = "Transfer-Encoding: " + m.header("Transfer-Encoding"); return "c05:stream:own-transfer-coding-" + std::string(std::count(m.codings.begin(), m.codings.end(), want) ? "doubled" : "missing"); }
    }
    std::multiset<std::string> gotC, wantC;
    for (auto& h : m.headers) if (strcasecmp(h.first.c_str(), "Set-Cookie") == 0) gotC.insert(h.second);
    for (auto& ck : rc.cookies) wantC.insert(ck.first + "=" + ck.second);
    if (gotC != wantC) { detail = std::to_string(gotC.size()) + " Set-Cookie lines, want " + std::to_string(wantC.size()); return "c05:" + kd + ":cookies"; }
    if (rc.kind == 2) {
        std::string want = tagged_body(rc.bigFile ? 9 : 7, rc.bigFile ? 300000 : 1234, false);
        if (!m.hasLength) return "c05:file:no-content-length";
        if (m.contentLength != want.size()) { detail = "Content-Length " + std::to_string(m.contentLength) + ", file " + std::to_string(want.size()); return "c05:file:content-length"; }
        if (m.body != want) return "c05:file:body-bytes";
        wait_for([&] { return rc.fulfilled.load() + rc.rejected.load() > 0; }, 3 * lf);
        if (!rc.fulfilled.load()) return "c05:file:promise-not-fulfilled";
    } else if (rc.kind == 0 || rc.kind == 3) {
        if (rc.kind == 3 && rc.threw.load()) return "c05:own-answer-after-failed-file:missing-file-did-not-raise";
        if (!m.hasLength) return "c05:fixed:no-content-length";
        if (m.contentLength != rc.bodyLen) { detail = "Content-Length " + std::to_string(m.contentLength) + " body " + std::to_string(rc.bodyLen); return "c05:fixed:content-length"; }
        if (m.body != tagged_body(rc.tag, rc.bodyLen, false)) return "c05:fixed:body-bytes";
        wait_for([&] { return rc.fulfilled.load() + rc.rejected.load() > 0; }, 3 * lf);
        if (!rc.fulfilled.load()) return "c05:" + kd + ":promise-not-fulfilled";
        if (rc.reportedSize.load() != (long)m.consumed) { detail = "getResponseSize() " + std::to_string(rc.reportedSize.load()) + ", bytes emitted " + std::to_string(m.consumed); return "c05:" + kd + ":reported-size"; }
    } else {
        if (!m.chunked) return "c05:stream:not-chunked";
        std::string exp = expected_stream_body(rc);
        if (m.body != exp) { detail = "decoded " + std::to_string(m.body.size()) + " bytes, written " + std::to_string(exp.size()); return "c05:stream:decoded-chunks-differ"; }
    }
    // nothing may follow the message: the next exchange starts cleanly
    size_t off = m.consumed;
    c.send_all("GET /ping HTTP/1.1\r\nHost: x\r\n\r\n");
    lv::HttpMsg m2 = lv::read_response(c, buf, off, (int)(4000 * lf));
    if (!m2.complete || m2.status != 200 || m2.body != "ping") { detail = "bytes after the message: " + buf.substr(off, 60); return "c05:" + kd + ":stray-bytes-after-message"; }
    return "";
}
static void run_c05(long cases) {
    Rng r(g_opts.seed * 3037 + (uint64_t)g_opts.shard);
    auto start = [&](std::unique_ptr<Http::Endpoint>& ep, size_t maxResp) {
        ep.reset(new Http::Endpoint(Address(Ipv4::loopback(), Port(0))));
        auto o = Http::Endpoint::options().threads(1).flags(Tcp::Options::ReuseAddr);
        if (maxResp) o.maxResponseSize(maxResp);
        ep->init(o); ep->setHandler(Http::make_handler<RecipeHandler>()); ep->serveThreaded();
        return (int)ep->getPort();
    };
    std::unique_ptr<Http::Endpoint> ep; int port = start(ep, 0);
    for (long n = 0; n < cases; n++) {
        long idx = g_opts.shard * 1000000L + n;
        Recipe rc; gen_recipe(r, rc, true);
        std::string id = "/r" + std::to_string(idx);
        { std::lock_guard<std::mutex> g(g_m); g_recipes[id] = &rc; }
        std::string wt = Json().num("i", idx).str("phase", "c05").str("recipe", recipe_text(rc)).done();
        set_case(idx, wt);
        lv::HttpMsg m; size_t wire = 0; std::string detail;
        std::string key = c05_exchange(port, id, rc, m, wire, false, detail);
        if (rc.ran.load() > 0) wait_for([&] { return rc.fulfilled.load() + rc.rejected.load() + rc.threw.load() > 0; }, 3.0);   // (the recipe lives on this frame: the handler's continuation must have run before it goes)
        g_evals++;
        if (!key.empty() && key.rfind("harness", 0) != 0) violation(key, recipe_text(rc) + ": " + key.substr(4) + " " + detail, Json().num("i", idx).str("phase", "c05").str("recipe", recipe_text(rc)).str("detail", detail).done());
        std::string shape = std::string(rc.kind == 1 ? "S" : rc.kind == 2 ? "file" : rc.kind == 3 ? "nofile" : "F") + std::to_string(rc.headers.size()) + std::to_string(rc.cookies.size());
        if (rc.kind != 1) { size_t b = rc.bodyLen, lg = 0; while (b >>= 1) lg++; shape += "b" + std::to_string(lg); } else { for (long c : rc.chunks) shape += c < 0 ? 'v' : c == 0 ? '0' : c < 16 ? 'a' : c < 256 ? 'b' : c < 4096 ? 'c' : c < 65536 ? 'd' : c >= 16777216 ? 'g' : c >= 1048576 ? 'f' : 'e'; }
        g_distinct.add(shape);
        count(rc.kind == 1 ? "stream_responses" : rc.kind == 2 ? "file_responses" : rc.kind == 3 ? "own_answers_after_a_failed_file" : "fixed_responses"); if (rc.kind == 1 && rc.te) count("stream_responses_with_a_transfer_coding_of_the_handler");
        if (g_samples_left > 0 && (n % 37) == 3) { g_samples_left--; sample(wt); }
        // response size limit: differential on the configuration, for a sample of fixed recipes
        if (key.empty() && rc.kind == 0 && wire > 0 && (n % 6) == 0) {
            size_t T = wire;
            size_t head = m.headBytes;
            std::vector<size_t> limits = {T - 1, T, T + 1, head > 2 ? head - 1 : 1, head, head + 1};
            for (size_t L : limits) {
                if (L < 64) continue;
                std::unique_ptr<Http::Endpoint> ep2; int port2;
                try { port2 = start(ep2, L); } catch (const std::exception&) { count("limit_endpoint_refused_setting"); continue; }
                Recipe r2; r2.kind = 0; r2.code = rc.code; r2.headers = rc.headers; r2.cookies = rc.cookies; r2.bodyLen = rc.bodyLen; r2.tag = rc.tag; r2.viaClone = rc.viaClone;
                std::string id2 = id + "L" + std::to_string(L);
                { std::lock_guard<std::mutex> g(g_m); g_recipes[id2] = &r2; }
                // the path is part of nothing on the response side, so the size on the wire is the same T
                lv::HttpMsg m2; size_t w2 = 0; std::string d2;
                bool refuse = L < T;
                std::string k2 = c05_exchange(port2, id2, r2, m2, w2, refuse, d2);
                g_evals++;
                if (k2.empty() && !refuse && w2 != T) { k2 = "c05:limit:response-changed-under-limit"; d2 = std::to_string(w2) + " vs " + std::to_string(T); }
                if (!k2.empty() && k2.rfind("harness", 0) != 0) {
                    std::string rel = L + 1 == T ? "limit=size-1" : L == T ? "limit=size" : L == T + 1 ? "limit=size+1" : "limit-near-head";
                    violation(k2 + ":" + rel, recipe_text(rc) + " (" + std::to_string(T) + " bytes on the wire) with maxResponseSize " + std::to_string(L) + ": " + k2.substr(4) + " " + d2,
                              Json().num("i", idx).str("phase", "c05").str("recipe", recipe_text(rc)).num("wire_bytes", (long long)T).num("limit", (long long)L).str("detail", d2).done());
                }
                g_distinct.add("lim|" + std::string(L < T ? "below" : L == T ? "at" : "above") + "|" + shape);
                count("limit_cases");
                { std::lock_guard<std::mutex> g(g_m); g_recipes.erase(id2); }
                ep2->shutdown();
            }
        }
        { std::lock_guard<std::mutex> g(g_m); g_recipes.erase(id); }
    }
    ep->shutdown();
}

// =====================================================================================
// seg: server-level confirmation for C01 / C04 (digest echo under forced read segmentation)
struct DigestHandler : public Http::Handler {
    HTTP_PROTOTYPE(DigestHandler)
    void onRequest(const Http::Request& req, Http::ResponseWriter response) override {
        if (req.resource() == "/__big") { response.send(Http::Code::Ok, std::string(12u << 20, 'B')); return; }   // an answer the client lets wait: the connection's output is blocked
        if (req.resource() == "/__throw") throw std::runtime_error("handler failed");
        if (req.resource() == "/__throwhttp") throw Http::HttpError(Http::Code::Forbidden, "handler refuses");
        response.send(Http::Code::Ok, mg::snap(req));
    }
};
static void set_caps(const std::vector<size_t>& caps, bool repeat) { lv::Interpose& I = lv::ip(); std::lock_guard<std::mutex> g(I.m); I.defaultRecvCaps = caps; I.defaultRecvRepeat = repeat; }
static void run_seg(long cases) {
    lv::ip().enabled = true; lv::ip().capAccepted = true;
    Rng r(g_opts.seed * 3041 + (uint64_t)g_opts.shard);
    Http::Endpoint ep(Address(Ipv4::loopback(), Port(0)));
    ep.init(Http::Endpoint::options().threads(1).flags(Tcp::Options::ReuseAddr).maxRequestSize(1 << 16));
    ep.setHandler(Http::make_handler<DigestHandler>());
    ep.serveThreaded();
    int port = ep.getPort();
    auto exchange = [&](lv::Conn& c, const std::string& bytes, std::string& digest, int& status) {
        std::string buf; c.send_all(bytes);
        lv::HttpMsg m = lv::read_response(c, buf, 0, (int)(5000 * lv::load_factor()));
        status = m.complete ? m.status : -1; digest = m.body; return m.complete;
    };
    mg::GenOpts go; go.forceResponse = 0; go.maxBody = 1500; go.allowDefects = false;
    for (long n = 0; n < cases; n++) {
        long idx = g_opts.shard * 1000000L + n;
        // three messages: each first on its own fresh connection without caps (reference), then under caps, then as a keep-alive sequence
        std::vector<mg::Msg> ms; std::vector<std::string> ref; std::vector<int> refStatus;
        for (int k = 0; k < 3; k++) {
            mg::Msg m = mg::gen_message(r, go);
            // the echo needs the connection kept open
            ms.push_back(m);
            set_caps({}, false);
            lv::Conn c; c.open_to(port); std::string d; int st; exchange(c, m.bytes, d, st);
            ref.push_back(d); refStatus.push_back(st);
        }
        for (int k = 0; k < 3; k++) {
            int style = r.range(0, 2);
            std::vector<size_t> caps; bool rep = true;
            if (style == 0) caps = {1}; else if (style == 1) { for (int j = 0; j < 6; j++) caps.push_back((size_t)r.range(1, 40)); } else { caps = {(size_t)r.range(1, 300), (size_t)r.range(1, 9), 4096}; rep = false; }
            set_caps(caps, rep);
            std::string wt = Json().num("i", idx).str("phase", "seg-c01").str("shape", ms[k].shape).raw("caps", jnums(caps)).str("hex", hex(ms[k].bytes.substr(0, 3000))).done();
            set_case(idx, wt);
            lv::Conn c; c.open_to(port); std::string d; int st; exchange(c, ms[k].bytes, d, st);
            g_evals++;
            if (st != refStatus[k] || d != ref[k]) violation(std::string("c01:server:") + (st != refStatus[k] ? "status-differs" : "message-differs") + ":" + (style == 0 ? "bytewise" : style == 1 ? "small-reads" : "three-reads"),
                    "request " + ms[k].shape + " read by the server in capped reads: status " + std::to_string(st) + " (whole: " + std::to_string(refStatus[k]) + ")" + (d != ref[k] ? ", parsed message differs" : ""), wt);
            g_distinct.add("seg|" + ms[k].shape + "|" + std::to_string(style));
            count("c01_server_level");
        }
        {   // keep-alive sequence on one connection (C04)
            std::vector<size_t> caps; for (int j = 0; j < 5; j++) caps.push_back((size_t)r.range(1, 200));
            set_caps(caps, true);
            lv::Conn c; c.open_to(port);
            for (int k = 0; k < 3; k++) {
                std::string wt = Json().num("i", idx).str("phase", "seg-c04").num("position", k).str("shape", ms[k].shape).str("hex", hex(ms[k].bytes.substr(0, 3000))).done();
                set_case(idx, wt);
                std::string d; int st; exchange(c, ms[k].bytes, d, st);
                g_evals++;
                if (st != refStatus[k] || d != ref[k]) { violation(std::string("c04:server:") + (st != refStatus[k] ? "status-differs" : "message-differs") + ":position-" + std::to_string(k),
                        "request " + std::to_string(k) + " (" + ms[k].shape + ") on a keep-alive connection: status " + std::to_string(st) + " (fresh connection: " + std::to_string(refStatus[k]) + ")" + (d != ref[k] ? ", parsed message differs" : ""), wt); break; }
                g_distinct.add("ka|" + ms[k].shape + "|" + std::to_string(k));
                count("c04_server_level");
            }
        }
        {   // keep-alive connection whose previous request FAILED (answered by the framework with 4xx/5xx, connection kept open):
            // the successor must be parsed as on a fresh connection
            static const char* PRED[][2] = {
                {"bad-cookie-500", "GET /p HTTP/1.1\r\nHost: x\r\nCookie: novalue\r\n\r\n"},
                {"handler-throws-500", "GET /__throw?a=1 HTTP/1.1\r\nHost: x\r\nX-Old: 1\r\nCookie: old=1\r\n\r\n"},
                {"handler-throws-http-error", "GET /__throwhttp HTTP/1.1\r\nHost: x\r\nX-Old: 1\r\n\r\n"},
                {"unknown-method", "BREW /p HTTP/1.1\r\nHost: x\r\n\r\n"},
                {"bad-version", "GET /p HTTP/3.7\r\nHost: x\r\n\r\n"},
                {"bad-cache-control-value", "GET /p HTTP/1.1\r\nHost: x\r\nCache-Control: max-age=\r\n\r\n"},
                {"bad-content-length", "GET /p HTTP/1.1\r\nHost: x\r\nContent-Length: 12x\r\n\r\n"},
                {"bad-accept-value", "GET /p HTTP/1.1\r\nHost: x\r\nAccept: text/;;q=\r\n\r\n"},
            };
            int pk = r.range(0, 7); int k = r.range(0, 2);
            std::vector<size_t> caps; for (int j = 0; j < 5; j++) caps.push_back((size_t)r.range(1, 200));
            // the predecessor is read in one piece (an error found in the middle of a message discards what has been read so far; what
            // arrives later of that same message would be taken for a new one - that is the client's problem, not a reset defect);
            // the capped reads apply to the successor
            set_caps({}, false);
            bool capSuccessor = r.chance(1, 2);
            std::string wt = Json().num("i", idx).str("phase", "seg-c04-after-failure").str("predecessor", PRED[pk][0]).str("shape", ms[k].shape).str("hex", hex(ms[k].bytes.substr(0, 3000))).done();
            set_case(idx, wt);
            lv::Conn c; c.open_to(port);
            std::string d0; int st0 = 0;
            if (exchange(c, PRED[pk][1], d0, st0)) {
                // a connection the server chose to close after the failure is out of scope (nothing follows on it)
                struct pollfd pf{c.fd, POLLIN, 0}; bool closed = ::poll(&pf, 1, 30) > 0;
                if (!closed) {
                    if (capSuccessor) set_caps(caps, true);
                    std::string d; int st; exchange(c, ms[k].bytes, d, st);
                    g_evals++;
                    if (st != refStatus[k] || d != ref[k]) violation(std::string("c04:server:after-failed-request:") + PRED[pk][0] + ":" + (st != refStatus[k] ? "status-differs" : "message-differs"),
                            "request (" + ms[k].shape + ") after a predecessor answered " + std::to_string(st0) + " (" + PRED[pk][0] + ") on the same connection: status " + std::to_string(st) + " (fresh connection: " + std::to_string(refStatus[k]) + ")" + (d != ref[k] ? ", parsed message differs" : ""), wt);
                    g_distinct.add(std::string("kafail|") + PRED[pk][0] + "|" + std::to_string(st0));
                    count("c04_server_level_after_failure");
                } else count("c04_server_closed_after_failure");
            }
        }
        if (n % 4 == 1) {   // the same history with a client that does NOT read in between: it asks for 12 MiB, lets the answer wait (2 KiB receive buffer, output
            // of the connection blocked), sends the failing request and - in a segment of its own, a moment later - the successor; only then
            // does it read.  The framework's error answer cannot be written at once; the successor has to be parsed on a clean slate all the same.
            static const char* PREDB[][2] = {{"unknown-method", "BREW /p HTTP/1.1\r\nHost: x\r\n\r\n"}, {"bad-content-length", "GET /p HTTP/1.1\r\nHost: x\r\nContent-Length: 12x\r\n\r\n"},
                                            {"bad-chunk-size", "POST /p HTTP/1.1\r\nHost: x\r\nTransfer-Encoding: chunked\r\n\r\n3\r\nabc\r\nzz\r\n"}, {"bad-cookie-500", "GET /p HTTP/1.1\r\nHost: x\r\nCookie: novalue\r\n\r\n"}};
            int pk = r.range(0, 3); int k = r.range(0, 2);
            set_caps({}, false);
            std::string wt = Json().num("i", idx).str("phase", "seg-c04-after-failure-output-blocked").str("predecessor", PREDB[pk][0]).str("shape", ms[k].shape).str("hex", hex(ms[k].bytes.substr(0, 3000))).done();
            set_case(idx, wt);
            lv::Conn c; if (c.open_to(port, 2048)) {
                c.send_all("GET /__big HTTP/1.1\r\nHost: x\r\nConnection: keep-alive\r\n\r\n"); lv::msleep(150);
                c.send_all(PREDB[pk][1]); lv::msleep(120);
                c.send_all(ms[k].bytes); lv::msleep(60);
                // now read: the big answer, the error answer, the successor's answer
                std::string buf; size_t off = 0; lv::HttpMsg m1, m2, m3; double lastProgress = lv::now(); size_t lastSize = 0; int got = 0;
                for (;;) { lv::HttpMsg m = lv::parse_http(buf, off, true); if (!m.error.empty()) break; if (m.complete) { (got == 0 ? m1 : got == 1 ? m2 : m3) = m; off += m.consumed; if (++got == 3) break; continue; }
                    bool eof = false; if (!c.read_some(buf, 200, 1 << 30, &eof)) break; if (buf.size() != lastSize) { lastSize = buf.size(); lastProgress = lv::now(); } else if (lv::now() - lastProgress > 6 * lv::load_factor()) break; }
                g_evals++;
                if (got >= 2 && m1.status == 200 && m2.status >= 400) {
                    // (a connection the server closes after its error answer is out of scope)
                    if (got == 3) { if (m3.status != refStatus[k] || m3.body != ref[k]) violation(std::string("c04:server:after-failed-request:output-blocked:") + PREDB[pk][0] + ":" + (m3.status != refStatus[k] ? "status-differs" : "message-differs"),
                            "request (" + ms[k].shape + ") sent right behind a request answered " + std::to_string(m2.status) + " (" + PREDB[pk][0] + ") while the connection's output was blocked: status " + std::to_string(m3.status) + " (fresh connection: " + std::to_string(refStatus[k]) + ")" + (m3.body != ref[k] ? ", parsed message differs" : ""), wt);
                        count("c04_server_level_after_failure_output_blocked"); }
                    else { struct pollfd pf{c.fd, POLLIN, 0}; bool closed = ::poll(&pf, 1, 30) > 0; if (closed) count("c04_server_closed_after_failure"); else violation(std::string("c04:server:after-failed-request:output-blocked:") + PREDB[pk][0] + ":no-answer", "request (" + ms[k].shape + ") sent right behind a failed request while the connection's output was blocked got no answer", wt); }
                } else count("c04_output_blocked_history_not_established");
            }
        }
        if (g_samples_left > 0 && (n % 17) == 3) { g_samples_left--; sample(Json().str("shapes", ms[0].shape + " " + ms[1].shape + " " + ms[2].shape).done()); }
    }
    ep.shutdown();
}

// =====================================================================================
// c03s: hostile input on connection X, liveness probe on connection Y (same single worker)
static std::string hostile_mutate(Rng& r, std::string s) {
    int m = r.range(1, 4);
    for (int k = 0; k < m; k++) {
        int op = r.range(0, 6); size_t pos = s.empty() ? 0 : r.below(s.size());
        if (op == 0 && !s.empty()) s[pos] ^= (char)(1 << r.below(8));
        else if (op == 1 && !s.empty()) s.erase(pos, (size_t)r.range(1, 8));
        else if (op == 2) s.insert(pos, 1, "\r\n :;=,\0\xff"[r.below(10)]);
        else if (op == 3 && !s.empty()) s.resize(pos);
        else if (op == 4) s.insert(pos, std::string((size_t)r.range(1, 40), "9f0-+eE.x"[r.below(9)]));
        else if (op == 5 && !s.empty()) { size_t q = s.find("\r\n", pos); if (q != std::string::npos) s.erase(q + (r.chance(1, 2) ? 0 : 1), 1); }
        else { size_t q = s.find("\r\n\r\n"); if (q != std::string::npos) s.insert(q + 2, r.chance(1, 2) ? "Content-Length: " + std::to_string(r.next() >> r.below(64)) + "\r\n" : "Transfer-Encoding: chunked\r\n"); }
    }
    return s;
}
static void run_c03s(long cases) {
    Rng r(g_opts.seed * 3049 + (uint64_t)g_opts.shard);
    Http::Endpoint ep(Address(Ipv4::loopback(), Port(0)));
    ep.init(Http::Endpoint::options().threads(1).flags(Tcp::Options::ReuseAddr));
    ep.setHandler(Http::make_handler<DigestHandler>());
    ep.serveThreaded();
    int port = ep.getPort();
    lv::Conn probe; probe.open_to(port);
    mg::GenOpts go; go.forceResponse = 0; go.maxBody = 800; go.allowDefects = true;
    for (long n = 0; n < cases; n++) {
        long idx = g_opts.shard * 1000000L + n;
        mg::Msg m = mg::gen_message(r, go);
        std::string bytes = r.chance(1, 8) ? m.bytes : hostile_mutate(r, m.bytes);
        if (r.chance(1, 10)) { bytes.clear(); int len = r.range(1, 200); for (int k = 0; k < len; k++) bytes += (char)r.below(256); }
        else if (r.chance(1, 3)) {
            // a well-formed request with ONE header value that its typed converter cannot digest: the converters raise a zoo of
            // exception types (invalid_argument, out_of_range, runtime_error, HttpError ...), all of which must end in a response
            static const char* BREAKERS[][2] = {
                {"Host", "localhost:99999"}, {"Host", "localhost:abc"}, {"Host", "localhost:"}, {"Host", "[::1]:70000"}, {"Host", ":"}, {"Host", "[::1"}, {"Host", "1.2.3.4:-1"},
                {"Content-Length", "99999999999999999999999"}, {"Content-Length", "-1"}, {"Content-Length", "1e9"}, {"Content-Length", ""}, {"Content-Length", "18446744073709551616"},
                {"Set-Cookie", "id=1; Max-Age=soon"}, {"Set-Cookie", "id=1; Max-Age=2147483648"}, {"Set-Cookie", "id=1; Expires=never"}, {"Cookie", "novalue"}, {"Cookie", "=; ="},
                {"Cache-Control", "max-age=abc"}, {"Cache-Control", "max-age=99999999999999999999"}, {"Cache-Control", "max-age="}, {"Accept", "text/;;q="}, {"Accept", "text/html;q=9e999"}, {"Accept", "text/html;q=-1"},
                {"Content-Type", "nonsense"}, {"Content-Type", "text/plain; q=abc"}, {"Date", "Sun, 99 Foo 99999 99:99:99 GMT"}, {"Date", ""}, {"Authorization", ""}, {"Expect", ""}, {"Connection", "\x01"},
                {"Transfer-Encoding", "chunked, chunked, gzip"}, {"Content-Encoding", "\xff"}, {"Server", ""}, {"User-Agent", ""}, {"Location", ""}, {"Access-Control-Allow-Origin", ""}, {"Allow", "GET, , BREW"}};
            const char* const* bk = BREAKERS[r.below(sizeof BREAKERS / sizeof BREAKERS[0])];
            std::string val = bk[1]; if (r.chance(1, 3)) put_magic_number(r, val);
            bytes = std::string(r.chance(1, 2) ? "GET" : "POST") + " /b HTTP/1.1\r\nHost: h\r\n" + bk[0] + ": " + val + "\r\n" + (r.chance(1, 2) ? "Content-Length: 0\r\n" : "") + "\r\n";
            if (std::string(bk[0]) == "Host") bytes = std::string("GET /b HTTP/1.1\r\nHost: ") + val + "\r\n\r\n";
            count("hostile_header_values");
        }
        std::string wt = Json().num("i", idx).str("phase", "c03-server").str("origin", m.shape).str("hex", hex(bytes.substr(0, 4000))).done();
        set_case(idx, wt);
        lv::Conn x; if (!x.open_to(port)) { violation("c03:server:cannot-connect", "the server no longer accepts connections", wt); break; }
        std::vector<size_t> cuts; if (bytes.size() > 2 && r.chance(2, 3)) { int nc = r.range(1, 5); std::set<size_t> cs; for (int j = 0; j < nc; j++) cs.insert(1 + r.below(bytes.size() - 1)); cuts.assign(cs.begin(), cs.end()); }
        x.send_pieces(bytes, cuts, 1);
        std::string xbuf; lv::HttpMsg xm = lv::read_response(x, xbuf, 0, 150);
        g_evals++;
        std::string xclass = xm.complete ? std::to_string(xm.status / 100) + "xx" : xm.error.rfind("timeout-silent", 0) == 0 ? "waiting" : xm.error.rfind("closed", 0) == 0 ? "closed" : xm.error.rfind("timeout", 0) == 0 ? "partial" : "garbled";
        if (xclass == "garbled") violation("c03:server:garbled-answer", "the offending connection received bytes that are not an HTTP response: " + xm.error, wt);
        // the probe connection must still be served by the same worker
        std::string pbuf; double lf = lv::load_factor();
        probe.send_all("GET /probe" + std::to_string(idx) + " HTTP/1.1\r\nHost: p\r\nConnection: keep-alive\r\n\r\n");
        lv::HttpMsg pm = lv::read_response(probe, pbuf, 0, (int)(5000 * lf));
        if (!pm.complete || pm.status != 200) {
            // confirm once on a fresh probe before calling it
            lv::Conn p2; std::string b2; bool ok2 = p2.open_to(port);
            lv::HttpMsg pm2; if (ok2) { p2.send_all("GET /probe2 HTTP/1.1\r\nHost: p\r\n\r\n"); pm2 = lv::read_response(p2, b2, 0, (int)(5000 * lf)); }
            if (!ok2 || !pm2.complete) { violation("c03:server:other-connections-not-answered", "after hostile input on one connection a probe on another connection is not answered (" + pm.error + ")", wt); break; }
            violation("c03:server:keep-alive-probe-lost", "the long-lived probe connection stopped being answered: " + pm.error + " status " + std::to_string(pm.status), wt);
            probe.close_now(); probe.open_to(port);
        }
        g_distinct.add("h|" + m.shape + "|" + xclass + "|" + std::to_string(fnv(bytes) % 512));
        count("hostile_inputs"); count("offender_saw_" + xclass);
        if (g_samples_left > 0 && (n % 41) == 3) { g_samples_left--; sample(Json().str("origin", m.shape).str("offender_saw", xclass).str("text", bytes.substr(0, 160)).done()); }
    }
    ep.shutdown();
}

// =====================================================================================
// c10l: routing on the wire
static void run_c10l(long cases) {
    using namespace rm;
    Rng r(g_opts.seed * 3061 + (uint64_t)g_opts.shard);
    for (long n = 0; n < cases; n++) {
        long idx = g_opts.shard * 1000000L + n;
        auto router = std::make_shared<Rest::Router>();
        std::vector<Pattern> table; int nextId = 0;
        std::atomic<int> notFoundHits{0};
        bool withNotFound = r.chance(1, 2);
        int np = r.range(1, 8);
        for (int k = 0; k < np; k++) {
            Pattern p; p.id = nextId++; p.method = METHODS[r.below(4)];
            int len = r.range(0, 3);
            for (int i = 0; i < len; i++) { int w = r.range(0, 7); p.segs.push_back(w <= 4 ? std::string(1, "abc"[r.below(3)]) : w == 5 ? ":x" : w == 6 ? "*" : ":y"); }
            if (len > 0 && r.chance(1, 5)) p.segs.push_back(":o?");
            std::set<std::string> names; std::vector<std::string> ns; for (auto& s : p.segs) { if (s[0] == ':') { std::string nm = s.back() == '?' ? s.substr(0, s.size() - 1) : s; if (!names.insert(nm).second) continue; } ns.push_back(s); } p.segs = ns;
            bool dup = false; for (auto& q : table) if (q.method == p.method && q.segs == p.segs) dup = true; if (dup) continue;
            std::string text; for (auto& s : p.segs) text += "/" + s; if (text.empty()) text = "/";
            int id = p.id; std::vector<std::string> segs = p.segs;
            router->addRoute(p.method, text, [id, segs](const Rest::Request req, Http::ResponseWriter resp) {
                std::string b = "route=" + std::to_string(id);
                for (auto& s : segs) if (s[0] == ':') { std::string nm = s.back() == '?' ? s.substr(0, s.size() - 1) : s; if (req.hasParam(nm)) b += ";" + nm + "=" + req.param(nm).as<std::string>(); }
                for (auto& sp : req.splat()) b += ";*=" + sp.as<std::string>();
                resp.send(Http::Code::Ok, b); return Rest::Route::Result::Ok; });
            table.push_back(p);
        }
        if (withNotFound) router->addNotFoundHandler([&notFoundHits](const Rest::Request, Http::ResponseWriter resp) { notFoundHits++; resp.send(Http::Code::Not_Found, "custom-not-found"); return Rest::Route::Result::Ok; });
        Http::Endpoint ep(Address(Ipv4::loopback(), Port(0)));
        ep.init(Http::Endpoint::options().threads(1).flags(Tcp::Options::ReuseAddr));
        ep.setHandler(Rest::Router::handler(router));
        ep.serveThreaded();
        int port = ep.getPort();
        lv::Conn c; c.open_to(port);
        std::string tt; for (auto& p : table) { tt += std::string(MNAME(p.method)) + " "; for (auto& s : p.segs) tt += "/" + s; if (p.segs.empty()) tt += "/"; tt += "  "; }
        for (int k = 0; k < 12; k++) {
            std::vector<std::string> path; int len = r.range(0, 4); for (int i = 0; i < len; i++) path.push_back(std::string(1, "abcd"[r.below(4)]));
            std::string target; for (auto& s : path) target += (r.chance(1, 8) ? "//" : "/") + s; if (path.empty()) target = "/"; else if (r.chance(1, 5)) target += "/";
            Http::Method m = METHODS[r.below(4)];
            int nf0 = notFoundHits.load();
            std::string buf; c.send_all(std::string(MNAME(m)) + " " + target + " HTTP/1.1\r\nHost: x\r\nConnection: keep-alive\r\n\r\n");
            lv::HttpMsg res = lv::read_response(c, buf, 0, (int)(4000 * lv::load_factor()));
            g_evals++;
            std::string ctx = std::string(MNAME(m)) + " " + target;
            std::string wt = Json().num("i", idx).str("phase", "c10-live").str("table", tt).str("request", ctx).num("status", res.status).str("allow", res.header("Allow")).str("body", res.body.substr(0, 80)).done();
            set_case(idx, wt);
            auto adm = best_matches(table, m, path);
            std::string key;
            if (!res.complete) key = "c10:live:no-response";
            else if (!adm.empty()) {
                if (res.status != 200) key = "c10:live:matching-route-not-served";
                else { bool ok = false; for (auto& a : adm) { std::string b = "route=" + std::to_string(a.pattern); const Pattern* pp = nullptr; for (auto& p : table) if (p.id == a.pattern) pp = &p; for (auto& s : pp->segs) if (s[0] == ':') { std::string nm = s.back() == '?' ? s.substr(0, s.size() - 1) : s; auto it = a.m.params.find(nm); if (it != a.m.params.end()) b += ";" + nm + "=" + it->second; } for (auto& sp : a.m.splats) b += ";*=" + sp; if (b == res.body) ok = true; }
                    if (!ok) key = "c10:live:wrong-handler-or-binding"; }
            } else {
                std::set<std::string> allow; for (auto mm : METHODS) if (mm != m && !best_matches(table, mm, path).empty()) allow.insert(MNAME(mm));
                if (!allow.empty()) {
                    if (res.status != 405) key = "c10:live:405-missing";
                    else { std::set<std::string> got; std::string a = res.header("Allow"); size_t p0 = 0; while (p0 <= a.size()) { size_t q = a.find(',', p0); if (q == std::string::npos) q = a.size(); std::string t = a.substr(p0, q - p0); while (!t.empty() && t.front() == ' ') t.erase(0, 1); while (!t.empty() && t.back() == ' ') t.pop_back(); if (!t.empty()) got.insert(t); p0 = q + 1; }
                        if (got != allow) key = "c10:live:allow-header-wrong"; if (res.count("Allow") != 1) key = "c10:live:allow-header-count"; }
                } else {
                    if (res.status != 404) key = "c10:live:404-missing";
                    else if (withNotFound && (notFoundHits.load() - nf0 != 1 || res.body != "custom-not-found")) key = "c10:live:not-found-handler-not-exactly-once";
                }
                if (key.empty() && !allow.empty() && notFoundHits.load() != nf0) key = "c10:live:not-found-handler-ran-for-405";
            }
            if (!key.empty()) violation(key, ctx + " against [" + tt + "]: " + key.substr(9) + " (status " + std::to_string(res.status) + ", Allow '" + res.header("Allow") + "')", wt);
            g_distinct.add("l|" + std::to_string(table.size()) + "|" + std::to_string(path.size()) + "|" + (adm.empty() ? "no" : "yes") + "|" + std::to_string(res.status));
            count("live_probes");
        }
        ep.shutdown();
    }
}

static void run_more(const std::string& prop, long cases) {
    if (prop == "c05") run_c05(cases);
    else if (prop == "seg") run_seg(cases);
    else if (prop == "c03s") run_c03s(cases);
    else if (prop == "c10l") run_c10l(cases);
}
