# Shared machinery for the /verif checks: builds from /repo's working tree (cached by
# content hash), harness execution with watchdogs, sanitizer-log parsing, known-findings
# matching and evidence writing.  python3 stdlib only.
import fnmatch, os, sys, json, hashlib, subprocess, time, fcntl, shutil, re, signal, glob, random
from concurrent.futures import ThreadPoolExecutor

VERIF = os.path.dirname(os.path.dirname(os.path.abspath(__file__)))
REPO = os.environ.get("VERIF_REPO", "/repo")
CACHE = os.environ.get("VERIF_CACHE", os.path.join(VERIF, ".cache"))
GUARD = "PISTACHE_VERIF"
NCPU = os.cpu_count() or 4

FLAVOURS = {
    "plain": dict(cxx="g++", flags=["-O1", "-g", "-fno-omit-frame-pointer"]),
    "asan": dict(cxx="g++", flags=["-O1", "-g", "-fno-omit-frame-pointer",
                                   "-fsanitize=address,undefined,float-cast-overflow",
                                   "-fsanitize-recover=all", "-D_GLIBCXX_SANITIZE_VECTOR"]),
    "tsan": dict(cxx="g++", flags=["-O1", "-g", "-fno-omit-frame-pointer", "-fsanitize=thread"]),
    # libFuzzer stage of C03 (thorough tier): clang 14, instrumented library
    "fuzz": dict(cxx="clang++-14", flags=["-O1", "-g", "-fno-omit-frame-pointer", "-fsanitize=fuzzer-no-link,address,undefined",
                                          "-fno-sanitize=object-size,float-cast-overflow", "-fno-sanitize-recover=all",
                                          "-fsanitize-recover=signed-integer-overflow"]),
}
COMMON = ["-std=c++17", "-D" + GUARD, "-DONLY_C_LOCALE=1", "-DNDEBUG", "-pthread", "-w"]


def log(*a):
    print(*a, file=sys.stderr, flush=True)


def _repo_sources():
    out = []
    for sub in ("src/common", "src/server", "src/client"):
        d = os.path.join(REPO, sub)
        for f in sorted(os.listdir(d)):
            if f.endswith(".cc"):
                out.append(os.path.join(d, f))
    return out


def _hash_tree():
    h = hashlib.sha256()
    roots = ["src", "include", "subprojects/hinnant-date/include"]
    for r in roots:
        for dp, dn, fn in os.walk(os.path.join(REPO, r)):
            dn.sort()
            for f in sorted(fn):
                p = os.path.join(dp, f)
                h.update(os.path.relpath(p, REPO).encode())
                try:
                    with open(p, "rb") as fh:
                        h.update(fh.read())
                except OSError:
                    pass
    return h.hexdigest()


_tree_hash = None


def tree_hash():
    global _tree_hash
    if _tree_hash is None:
        _tree_hash = _hash_tree()
    return _tree_hash


def incflags():
    return ["-I", os.path.join(REPO, "include"), "-I", os.path.join(REPO, "subprojects/hinnant-date/include"),
            "-I", os.path.join(VERIF, "harness")]


class Lock:
    def __init__(self, path):
        self.path = path

    def __enter__(self):
        os.makedirs(os.path.dirname(self.path), exist_ok=True)
        self.fh = open(self.path, "w")
        fcntl.flock(self.fh, fcntl.LOCK_EX)
        return self

    def __exit__(self, *a):
        fcntl.flock(self.fh, fcntl.LOCK_UN)
        self.fh.close()


def _run(cmd, **kw):
    return subprocess.run(cmd, stdout=subprocess.PIPE, stderr=subprocess.STDOUT, text=True, **kw)


def build_lib(flavour):
    """Build libpistache.a for the flavour from REPO's working tree; returns the cache dir."""
    fl = FLAVOURS[flavour]
    key = hashlib.sha256((tree_hash() + flavour + " ".join(fl["flags"] + COMMON) + REPO).encode()).hexdigest()[:16]
    d = os.path.join(CACHE, "%s-%s" % (flavour, key))
    lib = os.path.join(d, "libpistache.a")
    with Lock(os.path.join(CACHE, "lock-%s" % flavour)):
        if os.path.exists(lib):
            os.utime(d, None)
            return d
        t0 = time.time()
        tmp = d + ".tmp%d" % os.getpid()
        shutil.rmtree(tmp, ignore_errors=True)
        os.makedirs(os.path.join(tmp, "obj"))
        srcs = _repo_sources()

        def cc(src):
            obj = os.path.join(tmp, "obj", os.path.basename(src) + ".o")
            r = _run([fl["cxx"]] + COMMON + fl["flags"] + incflags() + ["-c", src, "-o", obj])
            return src, obj, r

        objs = []
        with ThreadPoolExecutor(NCPU) as ex:
            for src, obj, r in ex.map(cc, srcs):
                if r.returncode != 0:
                    log("BUILD FAILED", src, "\n", r.stdout[-4000:])
                    shutil.rmtree(tmp, ignore_errors=True)
                    raise SystemExit(2)
                objs.append(obj)
        r = _run(["ar", "rcs", os.path.join(tmp, "libpistache.a")] + objs)
        if r.returncode != 0:
            log(r.stdout)
            raise SystemExit(2)
        shutil.rmtree(os.path.join(tmp, "obj"))
        shutil.rmtree(d, ignore_errors=True)
        os.rename(tmp, d)
        log("[vbuild] %s lib built in %.1fs -> %s" % (flavour, time.time() - t0, d))
        _prune(flavour, keep=d)
    return d


def _prune(flavour, keep, maxkeep=4):
    ents = [p for p in glob.glob(os.path.join(CACHE, flavour + "-*")) if os.path.isdir(p) and ".tmp" not in p]
    ents.sort(key=lambda p: os.path.getmtime(p), reverse=True)
    for p in ents[maxkeep:]:
        if p != keep:
            shutil.rmtree(p, ignore_errors=True)


def build_harness(name, flavour, extra=(), sources=None, link_lib=True, cxx=None, opt="-O0"):
    """Compile harness/<name>.cc against the flavour's library; returns path of the binary."""
    if os.environ.get("VERIF_COVERAGE_BINDIR") and link_lib and flavour != "fuzz":   # bin/coverage: the same workloads on gcov-instrumented binaries
        return os.path.join(os.environ["VERIF_COVERAGE_BINDIR"], name)
    d = build_lib(flavour) if link_lib else os.path.join(CACHE, "nolib-" + flavour)
    os.makedirs(d, exist_ok=True)
    fl = FLAVOURS[flavour]
    srcs = sources or [os.path.join(VERIF, "harness", name + ".cc")]
    h = hashlib.sha256()
    for p in srcs + sorted(glob.glob(os.path.join(VERIF, "harness", "*.h"))):
        with open(p, "rb") as fh:
            h.update(fh.read())
    h.update((" ".join(extra) + opt).encode())
    # harnesses include pistache headers: the lib dir is already keyed by the tree hash
    out = os.path.join(d, "%s-%s" % (name, h.hexdigest()[:12]))
    with Lock(out + ".lock"):
        if os.path.exists(out):
            return out
        t0 = time.time()
        hflags = [opt if f == "-O1" else f for f in fl["flags"]]
        cmd = [cxx or fl["cxx"]] + COMMON + hflags + incflags() + list(extra) + srcs + ["-o", out + ".tmp"]
        if link_lib:
            cmd += [os.path.join(d, "libpistache.a")]
        cmd += ["-ldl", "-lrt", "-rdynamic"]
        r = _run(cmd)
        if r.returncode != 0:
            log("HARNESS BUILD FAILED", name, flavour, "\n", r.stdout[-6000:])
            raise SystemExit(2)
        os.rename(out + ".tmp", out)
        for old in glob.glob(os.path.join(d, name + "-*")):
            if old != out and not old.endswith(".lock"):
                try:
                    os.remove(old)
                except OSError:
                    pass
        log("[vbuild] harness %s/%s built in %.1fs" % (flavour, name, time.time() - t0))
    return out


# ----------------------------------------------------------------------------------------
# Running harnesses

def scratch_dir(pid):
    d = os.path.join(CACHE, "run", "%s-%d" % (pid, os.getpid()))
    shutil.rmtree(d, ignore_errors=True)
    os.makedirs(d)
    return d


SAN_ENV_EXPLORE = {
    "ASAN_OPTIONS": "halt_on_error=0:detect_leaks=0:abort_on_error=0:allocator_may_return_null=1:max_allocation_size_mb=512:detect_stack_use_after_return=0:handle_abort=1",
    "UBSAN_OPTIONS": "print_stacktrace=1:halt_on_error=0",
    "TSAN_OPTIONS": "halt_on_error=0:second_deadlock_stack=1:history_size=4",
}


def run_proc(cmd, timeout, env=None, cwd=None, stdin=None):
    """Run a command under a wall-clock watchdog.  Returns dict(rc, out, timed_out, wall)."""
    e = dict(os.environ)
    if env:
        e.update(env)
    t0 = time.time()
    p = subprocess.Popen(cmd, stdout=subprocess.PIPE, stderr=subprocess.STDOUT, env=e, cwd=cwd,
                         stdin=subprocess.DEVNULL if stdin is None else stdin, start_new_session=True)
    try:
        out, _ = p.communicate(timeout=timeout)
        to = False
    except subprocess.TimeoutExpired:
        try:
            os.killpg(p.pid, signal.SIGKILL)
        except OSError:
            pass
        out, _ = p.communicate()
        to = True
    return dict(rc=p.returncode, out=out.decode("utf-8", "replace"), timed_out=to, wall=time.time() - t0)


def read_jsonl(path):
    recs = []
    if not os.path.exists(path):
        return recs
    with open(path, "rb") as fh:
        for line in fh:
            line = line.strip()
            if not line:
                continue
            try:
                recs.append(json.loads(line.decode("utf-8", "replace")))
            except ValueError:
                pass  # a line cut by a crash
    return recs


def run_shards(binary, args_for_shard, nshards, timeout, env=None, tag="h", workdir=None):
    """Run nshards copies of a harness in parallel; each writes <workdir>/<tag>.<i>.jsonl.
    Returns list of dict(shard, rc, out, timed_out, recs, outfile)."""
    res = []

    def one(i):
        outfile = os.path.join(workdir, "%s.%d.jsonl" % (tag, i))
        e = dict(env or {})
        for k in ("ASAN_OPTIONS", "UBSAN_OPTIONS", "TSAN_OPTIONS"):
            if k in e:
                e[k] = e[k] + ":log_path=%s" % os.path.join(workdir, "%s.%d.%s" % (tag, i, k[:4].lower()))
        r = run_proc([binary] + args_for_shard(i) + ["--out", outfile], timeout, env=e, cwd=workdir)
        r["shard"] = i
        r["outfile"] = outfile
        r["recs"] = read_jsonl(outfile)
        return r

    with ThreadPoolExecutor(min(nshards, NCPU)) as ex:
        for r in ex.map(one, range(nshards)):
            res.append(r)
    return res


# ----------------------------------------------------------------------------------------
# Sanitizer log parsing

_FRAME = re.compile(r"^\s*#(\d+)\s+0x[0-9a-f]+\s+(?:in\s+)?(.*?)\s+(\S+?):(\d+)(?::\d+)?\s*$")
_FRAME_TSAN = re.compile(r"^\s*#(\d+)\s+(?!0x)(.*?)\s+(/\S+?|<null>):(\d+)(?::\d+)?\s+\(.*\)\s*$")
_FRAME2 = re.compile(r"^\s*#(\d+)\s+0x[0-9a-f]+\s+(?:in\s+)?(.*)$")


def _short_fn(fn):
    fn = fn.replace("(anonymous namespace)::", "")
    fn = re.sub(r"\(.*$", "", fn)           # drop args
    fn = re.sub(r"<[^<>]*>", "", fn)        # drop one level of template args
    fn = re.sub(r"<[^<>]*>", "", fn)
    fn = fn.replace("Pistache::", "")
    return fn.strip()


def _in_repo(path):
    return ("/src/common/" in path or "/src/server/" in path or "/src/client/" in path or "/include/pistache/" in path)


def parse_sanitizer_logs(paths):
    """Return list of reports: dict(kind, func, file, stack(list of 'fn file:line'), text, tool)."""
    reps = []
    for p in paths:
        try:
            txt = open(p, "r", errors="replace").read()
        except OSError:
            continue
        reps.extend(parse_sanitizer_text(txt))
    return reps


def parse_sanitizer_text(txt):
    reps = []
    lines = txt.splitlines()
    i = 0
    n = len(lines)
    cur_case = None
    while i < n:
        ln = lines[i]
        kind = None
        tool = None
        if ln.startswith("@@CASE "):
            try:
                cur_case = json.loads(ln[7:])
            except ValueError:
                cur_case = {"raw": ln[7:200]}
            i += 1
            continue
        if "ERROR: LeakSanitizer: detected memory leaks" in ln:
            # one report per "Direct leak" block whose allocation stack has a frame of the library (indirect leaks hang off a
            # direct one; blocks allocated by the harness alone are the harness's business)
            j = i + 1
            while j < n and not lines[j].startswith("SUMMARY:"):
                bm = re.match(r"^(Direct|Indirect) leak of (\d+) byte\(s\) in (\d+) object\(s\) allocated from:", lines[j])
                if not bm:
                    j += 1
                    continue
                k = j + 1
                st, text = [], [lines[j]]
                while k < n and lines[k].strip():
                    fm = _FRAME.match(lines[k])
                    if fm:
                        st.append((_short_fn(fm.group(2)), fm.group(3), int(fm.group(4))))
                    text.append(lines[k])
                    k += 1
                if bm.group(1) == "Direct":
                    func = next((fn for fn, fpath, fl in st if _in_repo(fpath)), None)
                    reps.append(dict(tool="lsan", kind="leak", func=func or "?", file=next((os.path.basename(fp) for fn, fp, fl in st if _in_repo(fp)), "?"),
                                     pair=[], case=cur_case, stack=["%s %s:%d" % (a, os.path.basename(b), c) for a, b, c in st[:14]],
                                     in_repo=func is not None, bytes=int(bm.group(2)), objects=int(bm.group(3)), text="\n".join(text[:40])))
                j = k
            i = j + 1
            continue
        m = re.search(r"ERROR: AddressSanitizer: ([\w-]+)", ln)
        if m:
            kind, tool = m.group(1), "asan"
            if "requested allocation size" in ln or kind == "requested":
                kind = "allocation-size-too-big"
        if not m:
            m = re.search(r"WARNING: ThreadSanitizer: ([\w -]+?)(?: \(pid|$)", ln)
            if m:
                kind, tool = m.group(1).strip().replace(" ", "-"), "tsan"
        if not m:
            m = re.search(r"(\S+?):(\d+):\d+: runtime error: (.*)$", ln)
            if m:
                tool = "ubsan"
                msg = m.group(3)
                msg = msg.replace("-nan", "nan").replace("-inf", "inf")
                kind = re.sub(r"-?\d[\d.e+]*", "N", msg)
                kind = re.sub(r"0x[0-9a-f]+", "P", kind)
                kind = re.sub(r"'[^']*'", "T", kind)[:60].strip().replace(" ", "_")
        if not kind:
            i += 1
            continue
        j = i + 1
        stacks = [[]]
        text = [ln]
        while j < n and len(text) < 120:
            l2 = lines[j]
            if re.search(r"ERROR: AddressSanitizer|WARNING: ThreadSanitizer|runtime error:", l2) or l2.startswith("@@CASE "):
                break
            text.append(l2)
            fm = _FRAME.match(l2) or _FRAME_TSAN.match(l2)
            if fm:
                if fm.group(1) == "0" and stacks[-1]:
                    stacks.append([])
                stacks[-1].append((_short_fn(fm.group(2)), fm.group(3), int(fm.group(4))))
            else:
                fm2 = _FRAME2.match(l2)
                if fm2:
                    if fm2.group(1) == "0" and stacks[-1]:
                        stacks.append([])
                    stacks[-1].append((_short_fn(fm2.group(2).split(" (")[0]), "?", 0))
            if l2.startswith("SUMMARY:") or l2.startswith("=================="):
                if l2.startswith("SUMMARY:"):
                    j += 1
                    break
            j += 1
        func, ffile = None, None
        if tool == "ubsan":
            # location is in the message; function from first in-repo frame
            ffile = os.path.basename(m.group(1)) if tool == "ubsan" else None
        first = stacks[0] if stacks else []
        for fn, fpath, fl in first:
            if _in_repo(fpath):
                func = fn
                if not ffile:
                    ffile = os.path.basename(fpath)
                break
        if func is None and tool == "tsan":
            for st in stacks:
                for fn, fpath, fl in st:
                    if _in_repo(fpath):
                        func = fn
                        ffile = os.path.basename(fpath)
                        break
                if func:
                    break
        if func is None:
            func = first[0][0] if first else "?"
        funcs2 = []
        if tool == "tsan":
            for st in stacks[:2]:
                f2 = "?"
                for fn, fpath, fl in st:
                    if _in_repo(fpath):
                        f2 = fn
                        break
                funcs2.append(f2)
        reps.append(dict(tool=tool, kind=kind, func=func, file=ffile or "?", pair=funcs2, case=cur_case,
                         stack=["%s %s:%d" % (a, os.path.basename(b), c) for a, b, c in first[:12]],
                         in_repo=any(_in_repo(b) for st in stacks for a, b, c in st),
                         text="\n".join(text[:60])))
        i = j
    return reps


# ----------------------------------------------------------------------------------------
# valgrind memcheck cross-check (uninitialised values are invisible to ASan/UBSan; MSan is not usable with an uninstrumented libstdc++)

_REPO_BASENAMES = None


def _repo_basenames():
    global _REPO_BASENAMES
    if _REPO_BASENAMES is None:
        names = set()
        for sub in ("src/common", "src/server", "src/client", "include/pistache"):
            d = os.path.join(REPO, sub)
            if os.path.isdir(d):
                names |= set(os.listdir(d))
        _REPO_BASENAMES = names
    return _REPO_BASENAMES


_VG_KIND = [(r"Conditional jump or move depends on uninitialised", "uninitialised-condition"), (r"Use of uninitialised value", "uninitialised-use"),
            (r"Syscall param .* uninitialised", "uninitialised-syscall-param"), (r"Invalid read", "invalid-read"), (r"Invalid write", "invalid-write"),
            (r"Invalid free|Mismatched free", "invalid-free"), (r"Source and destination overlap", "overlap"), (r"Argument .* has a fishy", "fishy-size"),
            (r"Process terminating|Jump to the invalid address|Invalid jump", "bad-jump")]


def parse_memcheck_text(txt):
    """valgrind -q text log -> reports dict(tool='memcheck', kind, func (innermost frame in a source file of the repository), stack, text)."""
    reps = []
    blocks = re.split(r"\n==\d+== *\n", "\n" + txt)
    for b in blocks:
        lines = [re.sub(r"^==\d+== ?", "", l) for l in b.splitlines() if re.match(r"^==\d+==", l)]
        if not lines:
            continue
        kind = None
        for pat, k in _VG_KIND:
            if re.search(pat, lines[0]):
                kind = k
                break
        if not kind:
            continue
        frames = []
        for l in lines[1:]:
            m = re.match(r"\s+(?:at|by) 0x[0-9A-Fa-f]+: (.*?) \(([^()]*?)(?::(\d+))?\)\s*$", l)
            if m:
                frames.append((_short_fn(m.group(1)), m.group(2), int(m.group(3) or 0)))
            elif frames and not l.startswith("   "):
                break
        func = next((fn for fn, f, ln in frames if f in _repo_basenames()), None)
        reps.append(dict(tool="memcheck", kind=kind, func=func or (frames[0][0] if frames else "?"), file=next((f for fn, f, ln in frames if f in _repo_basenames()), "?"),
                         pair=[], case=None, in_repo=func is not None, stack=["%s %s:%d" % fr for fr in frames[:14]], text="\n".join(lines[:40])))
    return reps


def run_memcheck(binary, base_args, nshards, work, timeout, tag="vg"):
    """Run the harness under valgrind memcheck in nshards processes; returns a list of results like run_resumable's (one attempt each),
    every report carrying the case that was in flight (from the harness's vgerr records, same order as the log)."""
    def shard(i):
        outfile = os.path.join(work, "%s.%d.jsonl" % (tag, i)); logf = os.path.join(work, "%s.%d.vglog" % (tag, i))
        args = ["valgrind", "-q", "--error-limit=no", "--num-callers=30", "--log-file=" + logf, binary] + list(base_args) + ["--shard", str(i), "--nshards", str(nshards), "--skip", "-1", "--out", outfile]
        r = run_proc(args, timeout=timeout, cwd=work)
        r["recs"] = read_jsonl(outfile)
        try:
            txt = open(logf, errors="replace").read()
        except OSError:
            txt = ""
        reps = parse_memcheck_text(txt)
        owners = []
        for x in r["recs"]:
            if x.get("t") == "vgerr":
                owners += [x.get("case")] * int(x.get("n", 1))
        for k, rep in enumerate(reps):
            rep["case"] = owners[k] if k < len(owners) else None
        r["reports"] = reps
        r["shard"] = i
        if not any(x.get("t") == "sum" for x in r["recs"]):
            for x in r["recs"]:
                if x.get("t") == "crash":
                    r["crash"] = x
            if not r.get("crash"):
                r["unresumable"] = True
        return [r]
    with ThreadPoolExecutor(min(nshards, NCPU)) as ex:
        return list(ex.map(shard, range(nshards)))


def san_key(rep):
    if rep["tool"] == "memcheck":
        return "memcheck:%s:%s" % (rep["kind"], rep["func"])
    if rep["tool"] == "tsan":
        pr = sorted(set(rep.get("pair") or [rep["func"]]))
        return "tsan:%s:%s" % (rep["kind"], "|".join(pr))
    if rep["tool"] == "ubsan":
        return "ubsan:%s:%s" % (rep["kind"], rep["func"])
    return "san:%s:%s" % (rep["kind"], rep["func"])


# ----------------------------------------------------------------------------------------
# Known findings, verdicts, evidence

def load_known():
    p = os.path.join(VERIF, "known_findings.json")
    if not os.path.exists(p):
        return []
    return json.load(open(p)).get("findings", [])


class Verdict:
    """Collects violations for one property, matches them against known findings, writes
    evidence and prints the interface lines."""

    def __init__(self, pid, tier, seed, level="exploration"):
        self.pid, self.tier, self.seed, self.level = pid, tier, seed, level
        self.t0 = time.time()
        self.viol = {}      # key -> dict(what, witness, count)
        self.inconclusive = []
        self.coverage = dict(evaluations=0, distinct_nontrivial=0, rule="", samples=[])
        self.assumptions = []
        self.known = [k for k in load_known() if k.get("property") == pid and k.get("status", "known") == "known"]
        self.wit_dir = os.path.join(VERIF, "witness", pid)

    def violation(self, key, what, witness=None):
        v = self.viol.setdefault(key, dict(what=what, witness=witness, count=0))
        v["count"] += 1

    def add_inconclusive(self, why):
        self.inconclusive.append(why)
        log("[%s] INCONCLUSIVE: %s" % (self.pid, why))

    def _match_known(self, key):
        for k in self.known:
            kk = k["key"]
            if kk == key or fnmatch.fnmatchcase(key, kk):
                return k
        return None

    def finish(self, extra_cov=None):
        cov = self.coverage
        if extra_cov:
            cov.update(extra_cov)
        new, known_hit = [], []
        for key, v in sorted(self.viol.items()):
            k = self._match_known(key)
            if k:
                known_hit.append((key, k, v))
            else:
                new.append((key, v))
        grouped = {}
        for key, k, v in known_hit:
            g = grouped.setdefault(id(k), dict(k=k, keys=[], count=0))
            g["keys"].append(key)
            g["count"] += v["count"]
        for g in grouped.values():
            print("KNOWN-FINDING: property=%s %s [keys=%s, seen %d times]" % (self.pid, g["k"]["what"], ",".join(g["keys"][:4]), g["count"]))
        rc = 0
        if new:
            os.makedirs(self.wit_dir, exist_ok=True)
            for key, v in new:
                fn = re.sub(r"[^A-Za-z0-9_.-]+", "_", key)[:100]
                path = os.path.join(self.wit_dir, "%s.json" % fn)
                with open(path, "w") as fh:
                    json.dump(dict(property=self.pid, key=key, what=v["what"], count=v["count"],
                                   seed=self.seed, tier=self.tier, witness=v["witness"]), fh, indent=1, default=str)
                print("VIOLATION property=%s replay=%s" % (self.pid, path))
                print("  key=%s : %s (seen %d times)" % (key, v["what"], v["count"]))
            rc = 1
        cov["violation_keys"] = sorted(self.viol.keys())
        cov["known_findings_reproduced"] = [k for k, _, _ in known_hit]
        if self.inconclusive:
            cov["inconclusive"] = self.inconclusive[:20]
        ev = dict(property_id=self.pid, tier=self.tier, seed=self.seed, level=self.level, coverage=cov,
                  assumptions=self.assumptions, wall_s=round(time.time() - self.t0, 2), violations=len(new),
                  repo=REPO, tree_hash=tree_hash()[:16])
        if int(cov.get("evaluations", 0)) < 1 or int(cov.get("distinct_nontrivial", 0)) < 2:
            self.add_inconclusive("monitor observed too little (evaluations=%s distinct=%s)" %
                                  (cov.get("evaluations"), cov.get("distinct_nontrivial")))
        os.makedirs(os.path.join(VERIF, "evidence"), exist_ok=True)
        evp = os.path.join(VERIF, "evidence", "%s.json" % self.pid)
        if os.environ.get("VERIF_EVIDENCE_DIR"):
            os.makedirs(os.environ["VERIF_EVIDENCE_DIR"], exist_ok=True)
            evp = os.path.join(os.environ["VERIF_EVIDENCE_DIR"], "%s.json" % self.pid)
        with open(evp, "w") as fh:
            json.dump(ev, fh, indent=1, default=str)
            fh.write("\n")
        if rc == 0 and self.inconclusive:
            print("INCONCLUSIVE property=%s: %s" % (self.pid, "; ".join(self.inconclusive[:3])))
            rc = 2
        print("[%s] tier=%s seed=%d evaluations=%s distinct=%s violations(new)=%d known=%d wall=%.1fs -> exit %d" %
              (self.pid, self.tier, self.seed, cov.get("evaluations"), cov.get("distinct_nontrivial"), len(new),
               len(known_hit), time.time() - self.t0, rc))
        return rc


def merge_harness_records(results, verdict, max_samples=8, only_prefix=None):
    """Common reduction of harness JSONL records: sums 'sum' counters, unions distinct keys,
    forwards violations; returns (counters, distinct_set, samples)."""
    counters, distinct, samples = {}, set(), []
    for r in results:
        last_crash = None
        for rec in r["recs"]:
            t = rec.get("t")
            if t == "crash":
                last_crash = rec      # a forked child's crash record (the parent lives on and reports the child's death next)
            elif t == "viol":
                if only_prefix and not rec["key"].startswith(only_prefix):
                    continue
                key, wit, what = rec["key"], rec.get("witness"), rec.get("what", "")
                if "client-crashes" in key and last_crash is not None:
                    fn = bt_function(last_crash.get("bt"))
                    key = "%s:sig%s:%s" % (key, last_crash.get("sig"), fn)
                    what = "%s: signal %s in %s" % (what, last_crash.get("sig"), fn)
                    wit = dict(wit or {}, crash=last_crash)
                    last_crash = None
                verdict.violation(key, what, wit)
            elif t == "d":
                distinct.update(rec.get("k", []))
            elif t == "sample":
                if len(samples) < max_samples:
                    samples.append(rec.get("v"))
            elif t in ("sum", "partial", "batchsum"):
                for k, v in rec.items():
                    if k == "t":
                        continue
                    if isinstance(v, (int, float)):
                        counters[k] = counters.get(k, 0) + v
                    elif isinstance(v, dict):
                        dd = counters.setdefault(k, {})
                        for kk, vv in v.items():
                            dd[kk] = dd.get(kk, 0) + vv
                    elif isinstance(v, list):
                        counters.setdefault(k, [])
                        for x in v:
                            if x not in counters[k]:
                                counters[k].append(x)
                    else:
                        counters[k] = v
    return counters, distinct, samples


def get_seed():
    try:
        return int(os.environ.get("VERIF_SEED", "1"))
    except ValueError:
        return 1


# ----------------------------------------------------------------------------------------
# Resumable sharded execution: a shard that dies (fatal sanitizer report, crash, CPU-time
# hang) names the case in flight; the shard is restarted with --skip <case index>.

def run_resumable(binary, base_args, nshards, timeout, work, env=None, max_restarts=25, tag="r", skip0=-1):
    def shard(i):
        skip = skip0
        outs = []
        for attempt in range(max_restarts):
            outfile = os.path.join(work, "%s.%d.%d.jsonl" % (tag, i, attempt))
            args = list(base_args) + ["--shard", str(i), "--nshards", str(nshards), "--skip", str(skip), "--out", outfile]
            r = run_proc([binary] + args, timeout=timeout, env=env, cwd=work)
            r["recs"] = read_jsonl(outfile)
            r["reports"] = parse_sanitizer_text(r["out"])
            r["shard"] = i
            outs.append(r)
            if any(x.get("t") == "sum" for x in r["recs"]):
                break
            idx = None
            for x in r["recs"]:
                if x.get("t") == "crash":
                    idx = x.get("index")
                    r["crash"] = x
            if idx is None:
                for rep in reversed(r["reports"]):
                    c = rep.get("case")
                    if isinstance(c, dict) and "i" in c:
                        idx = c["i"]
                        break
            if idx is None and not r["timed_out"]:
                # sanitizer killed the process without a case marker (TSan SEGV): use the last progress record
                prog = [x for x in r["recs"] if x.get("t") == "progress"]
                m = re.search(r"(?:Thread|Address)Sanitizer: (SEGV|DEADLYSIGNAL|stack-overflow)[^\n]*", r["out"])
                if prog and m:
                    idx = prog[-1]["i"] + prog[-1].get("stride", 1)
                    sm = re.search(r"SUMMARY: \w+Sanitizer: (\S+) \S+ in (.*)", r["out"])
                    r["fatal"] = dict(kind=m.group(1), func=_short_fn(sm.group(2)) if sm else "?", index=prog[-1]["i"], tail=r["out"][-2500:])
            if r["timed_out"] or idx is None or idx <= skip:
                r["unresumable"] = True
                break
            skip = idx
        return outs
    with ThreadPoolExecutor(min(nshards, NCPU)) as ex:
        return list(ex.map(shard, range(nshards)))


def bt_function(bt):
    """First frame of a backtrace_symbols() list that lies in Pistache (demangled when possible)."""
    for fr in bt or []:
        m = re.search(r"\((_ZN?K?8Pistache[^+)]*)", fr)
        if m:
            sym = m.group(1)
            try:
                out = subprocess.run(["c++filt", sym], stdout=subprocess.PIPE, text=True).stdout.strip()
                return _short_fn(out)
            except OSError:
                return sym[:60]
    return "?"


def collect_runs(v, results, case_label=None, judge_report=None, only_prefix=None):
    """Fold the records / sanitizer reports / crashes of run_resumable() into the verdict.
    Returns (counters, distinct, samples, stats)."""
    counters, distinct, samples = {}, set(), []
    stats = dict(sanitizer_reports_seen=0, sanitizer_report_keys={}, resumed_after_fatal=0, processes=0)
    label = case_label or (lambda c: "%s:%s" % (c.get("phase", c.get("kind", "?")), c.get("class", c.get("shape", c.get("target", "?")))))
    for outs in results:
        stats["resumed_after_fatal"] += len(outs) - 1
        for r in outs:
            stats["processes"] += 1
            cnt, dis, smp = merge_harness_records([r], v, only_prefix=only_prefix)
            for k, val in cnt.items():
                if isinstance(val, (int, float)):
                    counters[k] = counters.get(k, 0) + val
                elif isinstance(val, dict):
                    d = counters.setdefault(k, {})
                    for kk, vv in val.items():
                        if kk.startswith("alloc_worst"):
                            d[kk] = max(d.get(kk, 0), vv)
                        else:
                            d[kk] = d.get(kk, 0) + vv
                elif isinstance(val, list):
                    l = counters.setdefault(k, [])
                    for x in val:
                        if x not in l:
                            l.append(x)
            distinct |= dis
            samples += smp
            for rep in r["reports"]:
                stats["sanitizer_reports_seen"] += 1
                if judge_report and not judge_report(rep):
                    continue
                key = san_key(rep)
                c = rep.get("case") if isinstance(rep.get("case"), dict) else {}
                stats["sanitizer_report_keys"][key] = stats["sanitizer_report_keys"].get(key, 0) + 1
                v.violation(key, "%s %s in %s (%s) while running %s" % (rep["tool"], rep["kind"], rep["func"], rep["file"], label(c)),
                            dict(case=c, stack=rep["stack"], report=rep["text"][:3000]))
            if r.get("crash"):
                c = r["crash"]
                cs = c.get("case") if isinstance(c.get("case"), dict) else {}
                fn = bt_function(c.get("bt"))
                if c.get("sig") == 24:
                    key = "hang:%s:%s:%s" % (cs.get("phase", "?"), cs.get("kind", cs.get("target", "?")), cs.get("cutclass", fn))
                    what = "one parser call burned its CPU-time budget (SIGXCPU) in %s" % fn
                else:
                    key = "crash:sig%s:%s" % (c.get("sig"), fn)
                    what = "signal %s in %s while running %s" % (c.get("sig"), fn, label(cs))
                v.violation(key, what, c)
            if r.get("fatal"):
                f = r["fatal"]
                v.violation("crash:%s:%s" % (f["kind"].lower(), f["func"]), "the process died under the sanitizer (%s) in %s near case %s" % (f["kind"], f["func"], f["index"]), f)
            if r.get("unresumable"):
                if r["timed_out"]:
                    v.add_inconclusive("shard %s hit the wall-clock watchdog" % r.get("shard"))
                else:
                    v.add_inconclusive("harness died without naming a case: rc=%s tail=%r" % (r["rc"], r["out"][-300:]))
    return counters, distinct, samples, stats
