# C10: route tables vs an independent matcher (in-process part; the live 405/Allow part is in checks/live.py).
import os, sys, json, shutil
sys.path.insert(0, os.path.join(os.path.dirname(os.path.abspath(__file__)), "..", "lib"))
import vlib

def run(pid, tier, seed, replay=None):
    v = vlib.Verdict("C10", tier, seed, level="exploration")
    work = vlib.scratch_dir("C10")
    nsh = vlib.NCPU
    cases = 400 if tier == "quick" else 40000
    binary = vlib.build_harness("router", "plain")
    res = vlib.run_resumable(binary, ["--seed", str(seed), "--cases", str(cases), "--probes", "8" if tier == "quick" else "12"], nsh,
                             timeout=300 if tier == "quick" else 7200, work=work)
    counters, distinct, samples, stats = vlib.collect_runs(v, res)
    abin = vlib.build_harness("router", "asan")
    res2 = vlib.run_resumable(abin, ["--seed", str(seed + 5), "--cases", str(max(20, cases // 10))], nsh, timeout=300 if tier == "quick" else 7200,
                              work=work, env=vlib.SAN_ENV_EXPLORE, tag="a")
    c2, d2, s2, st2 = vlib.collect_runs(v, res2)
    distinct |= d2
    stats["asan_pass"] = dict(evaluations=int(c2.get("evaluations", 0)), **st2)
    live = None
    try:
        from checks import live as livemod
        live = livemod.c10_live(v, tier, seed, work)
    except ImportError:
        pass
    except AttributeError:
        pass
    if live:
        stats["live"] = live
    v.coverage.update(evaluations=int(counters.get("evaluations", 0)) + int(c2.get("evaluations", 0)), distinct_nontrivial=len(distinct),
                      rule="random route tables (<=12 patterns over segments a,b,c, params :x :y, trailing optionals :o? :p?, wildcard *, 4 methods) built by add/remove sequences on the real Rest::Router, probed after every step with paths of 0-5 segments over a..d with duplicate/leading/trailing slashes and all methods; an independent matcher over the pattern LIST gives the admissible handlers (a match is inadmissible when another match continues, at the first segment where the two routes part, with a kind of higher precedence fixed<param<optional<wildcard; everything else is a tie and any member is accepted), the bindings and 405/404. Tables with a mid-pattern optional are observed only. distinct = (table skeleton multiset, path length, unique/tie/nomatch, method)",
                      samples=samples[:6], monitor_counts=counters.get("counts", {}), **stats)
    v.assumptions += ["a wildcard stands for exactly one path segment", "where the statement leaves a tie (two parameter names at one position, several trailing optionals, exact route vs absent trailing optional) any tied route is accepted"]
    rc = v.finish()
    shutil.rmtree(work, ignore_errors=True)
    return rc
