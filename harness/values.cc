// Value-level monitors for C16 (typed headers), C17 (cookies), C18 (media types),
// C19 (addresses/ports), C20 (Base64 / Basic credentials).
// Every (ptr,len) parser input is placed against a guard page and is never NUL-terminated.
// Built in the `asan` flavour: the sanitizers decide the memory/UB half, the oracles below the
// behavioural half.  Violations are emitted as JSONL records with a specific key.
#include "common.h"
#include <thread>

#include <pistache/base64.h>
#include <pistache/cookie.h>
#include <pistache/http.h>
#include <pistache/http_header.h>
#include <pistache/http_headers.h>
#include <pistache/mime.h>
#include <pistache/net.h>

#include <arpa/inet.h>
#include <sstream>
#include <climits>

using namespace Pistache;
using namespace vf;

static Opts g_opts;
static Rng g_rng;
static Distinct g_distinct;
static long g_evals = 0;
static std::map<std::string, long> g_counts;
static CpuBudget g_cpu;
static long g_samples_left = 6;

static void count(const std::string& k) { g_counts[k]++; }
static Fence& fence_slot() { static Fence pool[4]; static int n = 0; return pool[n++ & 3]; }

struct Thrown {
    bool any = false;
    std::string type, what;
    int code = 0;
};
template <class F> static Thrown guarded(F&& f) {
    Thrown t;
    try { f(); }
    catch (const Http::HttpError& e) { t.any = true; t.type = "HttpError"; t.what = e.what(); t.code = e.code(); }
    catch (const std::invalid_argument& e) { t.any = true; t.type = "invalid_argument"; t.what = e.what(); }
    catch (const std::out_of_range& e) { t.any = true; t.type = "out_of_range"; t.what = e.what(); }
    catch (const std::domain_error& e) { t.any = true; t.type = "domain_error"; t.what = e.what(); }
    catch (const std::runtime_error& e) { t.any = true; t.type = "runtime_error"; t.what = e.what(); }
    catch (const std::exception& e) { t.any = true; t.type = "exception"; t.what = e.what(); }
    catch (...) { t.any = true; t.type = "unknown"; }
    return t;
}

static long g_skip_until = 0;   // resume after a fatal report: cases up to this index are generated but not executed
static bool begin_case(const std::string& kind, const std::string& cls, const std::string& text) {
    g_evals++;
    if (g_evals <= g_skip_until) return false;
    set_case(g_evals, Json().num("i", g_evals).str("kind", kind).str("class", cls).str("text", text.substr(0, 600)).str("hex", hex(text.substr(0, 600))).done());
    g_cpu.arm(kind == "lookup" ? 60.0 : 3.0);   // (a look-up case is thousands of look-ups - up to 2^10 capitalisations per name in the thorough tier: its budget is protective only)
    return true;
}
#define BEGIN(kind, cls, text) do { if (!begin_case(kind, cls, text)) return; } while (0)
static void end_case() { g_cpu.disarm(); }
static void viol(const std::string& key, const std::string& what) { violation(key, what, g_case); }
static void maybe_sample(const std::string& kind, const std::string& text, const std::string& extra = "") {
    static long calls = 0;
    if (g_samples_left > 0 && (calls++ % 977) == 3) {
        g_samples_left--;
        sample(Json().str("kind", kind).str("text", text).str("note", extra).done());
    }
}

static const char* TOKCH = "abcdefghijklmnopqrstuvwxyzABCDEFGHIJKLMNOPQRSTUVWXYZ0123456789-_.!#$%&'*+^`|~";
static std::string rnd_token(Rng& r, int lo, int hi, const char* alphabet = TOKCH) {
    size_t al = strlen(alphabet);
    int n = r.range(lo, hi);
    std::string s;
    for (int i = 0; i < n; i++) s += alphabet[r.below(al)];
    return s;
}
static std::string rnd_case(Rng& r, std::string s) {
    for (auto& c : s) if (isalpha((unsigned char)c) && r.chance(1, 2)) c = (char)(isupper((unsigned char)c) ? tolower(c) : toupper(c));
    return s;
}

// =====================================================================================
// C20 Base64
static std::string ref_b64(const std::string& in) {
    static const char* T = "ABCDEFGHIJKLMNOPQRSTUVWXYZabcdefghijklmnopqrstuvwxyz0123456789+/";
    std::string o;
    size_t i = 0;
    for (; i + 2 < in.size(); i += 3) {
        unsigned v = ((unsigned char)in[i] << 16) | ((unsigned char)in[i + 1] << 8) | (unsigned char)in[i + 2];
        o += T[v >> 18]; o += T[(v >> 12) & 63]; o += T[(v >> 6) & 63]; o += T[v & 63];
    }
    if (in.size() - i == 1) {
        unsigned v = ((unsigned char)in[i] << 16);
        o += T[v >> 18]; o += T[(v >> 12) & 63]; o += "==";
    } else if (in.size() - i == 2) {
        unsigned v = ((unsigned char)in[i] << 16) | ((unsigned char)in[i + 1] << 8);
        o += T[v >> 18]; o += T[(v >> 12) & 63]; o += T[(v >> 6) & 63]; o += "=";
    }
    return o;
}
static std::string b64_decode(const std::string& txt, Thrown& t) {
    std::string out;
    // exact-size heap copy so that any access outside the text is an ASan report
    std::string* heap = new std::string(txt);
    heap->shrink_to_fit();
    t = guarded([&] {
        Base64Decoder d(*heap);
        const auto& v = d.Decode();
        for (auto b : v) out.push_back((char)b);
    });
    delete heap;
    // and once from a heap block that begins with the text (short texts would otherwise sit inside the string object, where an access in
    // front of the first character is invisible)
    std::string* front = new std::string(); front->reserve(std::max<size_t>(32, txt.size())); front->assign(txt);
    (void)guarded([&] { Base64Decoder d(*front); (void)d.Decode(); });
    delete front;
    return out;
}
static void c20_roundtrip(const std::string& bytes, const std::string& cls) {
    BEGIN("b64", cls, bytes);
    std::string enc;
    Thrown t = guarded([&] { enc = Base64Encoder::EncodeString(bytes); });
    std::string ref = ref_b64(bytes);
    std::string lenclass = "len%3=" + std::to_string(bytes.size() % 3);
    if (t.any) viol("c20:encode:throw:" + lenclass, "EncodeString threw " + t.type + ": " + t.what);
    else if (enc != ref) viol("c20:encode:noncanonical:" + lenclass, "Encode gives '" + enc.substr(0, 80) + "' expected RFC 4648 '" + ref.substr(0, 80) + "'");
    Thrown t2;
    std::string dec = b64_decode(ref, t2);
    if (t2.any) viol("c20:decode:throw:" + lenclass, "Decode of canonical text threw " + t2.type + ": " + t2.what);
    else if (dec != bytes) viol("c20:decode:mismatch:" + lenclass, "Decode(Encode(b)) != b (got " + std::to_string(dec.size()) + " bytes, want " + std::to_string(bytes.size()) + ")");
    // Decode() is also the accessor of the result: asked again, and asked after the text it is bound to has been replaced, it gives the bytes of
    // the text as it is now
    { std::string again, refilled; std::string text = ref; Thrown t3 = guarded([&] { Base64Decoder d(text); (void)d.Decode(); const auto& v = d.Decode(); for (auto b : v) again.push_back((char)b);
          std::string other = bytes.size() > 2 ? bytes.substr(1) : bytes + "z"; text = ref_b64(other); const auto& w = d.Decode(); for (auto b : w) refilled.push_back((char)b); if (refilled != other) refilled = "!"; else refilled.clear(); });
      if (t3.any) viol("c20:decode:repeated:throw:" + lenclass, "a second Decode() on one decoder threw " + t3.type);
      else if (again != bytes) viol("c20:decode:repeated:" + lenclass, "a second Decode() on the same decoder gives " + std::to_string(again.size()) + " bytes, the first gave " + std::to_string(bytes.size()));
      else if (!refilled.empty()) viol("c20:decode:refilled:" + lenclass, "Decode() after the bound text was replaced does not give the bytes of the new text"); }
    g_distinct.add("b64:" + std::to_string(bytes.size() % 3) + ":" + std::to_string(std::min<size_t>(bytes.size(), 64)) + ":" + std::to_string(fnv(bytes) % 64));
    count("b64_roundtrip");
    maybe_sample("base64", hex(bytes.substr(0, 40)), "encodes to " + ref.substr(0, 60));
    end_case();
}
static void c20_credentials(const std::string& user, const std::string& pass, const std::string& cls) {
    BEGIN("basic", cls, user + "\x01" + pass);
    Http::Header::Authorization a;
    Thrown t = guarded([&] { a.setBasicUserPassword(user, pass); });
    if (t.any) { viol("c20:basic:set-throw:" + cls, "setBasicUserPassword threw " + t.type + ": " + t.what); end_case(); return; }
    std::string u, p;
    Thrown t2 = guarded([&] { u = a.getBasicUser(); p = a.getBasicPassword(); });
    if (t2.any) viol("c20:basic:get-throw:" + cls, "getBasicUser/Password threw " + t2.type + ": " + t2.what);
    else {
        if (u != user) viol("c20:basic:user:" + cls, "user read back differs");
        if (p != pass) viol("c20:basic:password:" + cls, "password read back differs");
    }
    if (a.getMethod() != Http::Header::Authorization::Method::Basic) viol("c20:basic:method:" + cls, "getMethod() != Basic");
    // through the header text as well
    std::ostringstream os; a.write(os);
    Http::Header::Authorization b;
    Fence& f = fence_slot(); f.place(os.str().data(), os.str().size());
    Thrown t3 = guarded([&] { b.parseRaw(f.ptr, f.len); });
    if (t3.any || b.value() != a.value()) viol("c20:basic:reparse:" + cls, "Authorization text does not parse back");
    g_distinct.add("cred:" + cls + ":" + std::to_string((user.size() + pass.size() + 1) % 3) + ":" + std::to_string(fnv(user + ":" + pass) % 256));
    count("basic_credentials");
    maybe_sample("credentials", hex(user) + ":" + hex(pass), a.value());
    end_case();
}
// one header object used for several credentials in a row, read in between, re-parsed and copied: every read must give what the
// header holds NOW (what value()/write() show)
static void c20_credential_sequence(Rng& r) {
    static const char* UCH = "abcXYZ019 !#$%&/()=?*+~.,;-_<>|@";
    auto rnd = [&](int maxlen, bool colon) { std::string t; int l = r.range(0, maxlen); for (int k = 0; k < l; k++) t += (colon && r.chance(1, 8)) ? ':' : UCH[r.below(strlen(UCH))]; return t; };
    std::string script;
    Http::Header::Authorization a; std::string curU, curP; bool have = false;
    int steps = r.range(3, 8);
    std::string all;
    for (int k = 0; k < steps; k++) { int op = r.range(0, 3); script += "srpc"[op]; }
    BEGIN("basic-sequence", script, script);
    for (char op : script) {
        if (op == 's') { curU = rnd(10, false); curP = rnd(12, true); Thrown t = guarded([&] { a.setBasicUserPassword(curU, curP); }); if (t.any) { viol("c20:basic:sequence:set-throw", "setBasicUserPassword threw in sequence " + script); break; } have = true; }
        else if (op == 'p') { curU = rnd(10, false); curP = rnd(12, true); std::string raw = "Basic " + ref_b64(curU + ":" + curP); Fence& f = fence_slot(); f.place(raw.data(), raw.size()); Thrown t = guarded([&] { a.parseRaw(f.ptr, f.len); }); if (t.any) { viol("c20:basic:sequence:parse-throw", "parseRaw threw in sequence " + script); break; } have = true; }
        else if (op == 'c') { Http::Header::Authorization b(a); a = b; }
        if (have) {
            std::string u, p; Thrown t = guarded([&] { u = a.getBasicUser(); p = a.getBasicPassword(); });
            if (t.any) { viol("c20:basic:sequence:get-throw", "accessors threw in sequence " + script + " at '" + std::string(1, op) + "'"); break; }
            if (u != curU || p != curP) { viol(std::string("c20:basic:sequence:stale-after-") + (op == 's' ? "set" : op == 'p' ? "parse" : op == 'c' ? "copy" : "read"), "after sequence " + script + " the header holds '" + a.value() + "' but the accessors return user '" + u + "' password '" + p + "'"); break; }
            if (a.value() != "Basic " + ref_b64(curU + ":" + curP)) { viol("c20:basic:sequence:value", "value() is not the encoding of the credentials set last in sequence " + script); break; }
        }
    }
    g_distinct.add("credseq:" + script);
    count("basic_credential_sequences");
    end_case();
}
static void c20_invalid(const std::string& txt, const std::string& cls) {
    BEGIN("b64-invalid", cls, txt);
    Thrown t;
    std::string dec = b64_decode(txt, t);
    // Either outcome is allowed; the sanitizer decides memory safety.  Sanity: output never longer than 3/4 input.
    if (!t.any && dec.size() > txt.size()) viol("c20:invalid:oversize:" + cls, "decoded more bytes than input characters");
    count(t.any ? "b64_invalid_rejected" : "b64_invalid_decoded");
    g_distinct.add("inv:" + cls + ":" + std::to_string(txt.size() % 4) + ":" + (t.any ? "T" : "D") + std::to_string(fnv(txt) % 512));
    // Authorization accessors on hostile text
    Http::Header::Authorization a("Basic " + txt);
    (void)guarded([&] { (void)a.getBasicUser(); (void)a.getBasicPassword(); });
    end_case();
}
static void run_c20(long cases) {
    Rng& r = g_rng;
    bool first = g_opts.shard == 0;
    if (first) {
        for (int b = 0; b < 256; b++) c20_roundtrip(std::string(1, (char)b), "all-1-byte");
        for (int b = 0; b < 65536; b += (g_opts.mode == "thorough" ? 1 : 7)) { std::string s; s += (char)(b >> 8); s += (char)(b & 255); c20_roundtrip(s, "2-byte"); }
    }
    int maxlen = 600;
    int per = std::max<long>(1, cases / 3 / (maxlen + 1));
    for (int len = 0; len <= maxlen; len++)
        for (int k = 0; k < per; k++) {
            std::string s;
            int style = r.range(0, 3);
            for (int i = 0; i < len; i++) s += (char)(style == 0 ? r.below(256) : style == 1 ? 0xff : style == 2 ? 0 : (0x80 | r.below(128)));
            c20_roundtrip(s, "len" + std::to_string(len % 3));
        }
    static const char* UCH = "abcXYZ019 !#$%&/()=?*+~.,;-_<>|@\x7f\x80\xff\x01\t";
    for (long i = 0; i < cases / 3; i++) {
        std::string u, p;
        int ul = r.range(0, 12), pl = r.range(0, 16);
        for (int k = 0; k < ul; k++) u += r.chance(1, 5) ? (char)(1 + r.below(255)) : UCH[r.below(strlen(UCH))];
        for (auto& c : u) if (c == ':') c = ';';
        for (int k = 0; k < pl; k++) p += r.chance(1, 5) ? (char)r.below(256) : r.chance(1, 6) ? ':' : UCH[r.below(strlen(UCH))];
        std::string cls = std::string(u.empty() ? "emptyuser" : "user") + (p.empty() ? "-emptypass" : p.find(':') != std::string::npos ? "-colonpass" : "-pass");
        c20_credentials(u, p, cls);
    }
    for (long i = 0; i < cases / 12; i++) c20_credential_sequence(r);
    // padding-only and padding-heavy texts of every length
    if (first) for (int len = 1; len <= 72; len++) { c20_invalid(std::string((size_t)len, '='), "only-padding"); c20_invalid("A" + std::string((size_t)len, '='), "padding-after-one"); c20_invalid(std::string((size_t)len, '=') + "QQ==", "padding-first"); }
    static const char* B64ISH = "ABCDwxyz0189+/=-_ \n.";
    for (long i = 0; i < cases / 3; i++) {
        std::string s;
        int len = r.range(0, 40);
        int style = r.range(0, 3);
        if (style == 0) for (int k = 0; k < len; k++) s += (char)r.below(256);
        else if (style == 1) for (int k = 0; k < len; k++) s += B64ISH[r.below(strlen(B64ISH))];
        else {  // mutate a valid encoding
            std::string b; for (int k = 0; k < len; k++) b += (char)r.below(256);
            s = ref_b64(b);
            int m = r.range(1, 3);
            for (int k = 0; k < m && !s.empty(); k++) {
                size_t pos = r.below(s.size());
                int op = r.range(0, 3);
                if (op == 0) s[pos] = "=*-\0\xff"[r.below(5)];
                else if (op == 1) s.erase(pos, 1);
                else if (op == 2) s.insert(pos, 1, '=');
                else s.resize(pos);
            }
        }
        c20_invalid(s, "style" + std::to_string(style));
    }
}

// =====================================================================================
// C19 addresses and ports
static std::string addr_print(const Address& a) { std::ostringstream os; os << a; return os.str(); }
static void c19_expect_ok(const std::string& text, const std::string& wantHost, int wantPort, int wantFamily, const std::string& cls) {
    BEGIN("addr-ok", cls, text);
    std::string host; int port = -1, fam = -1; std::string printed;
    Thrown t = guarded([&] { Address a(text); host = a.host(); port = a.port(); fam = a.family(); printed = addr_print(a); });
    if (t.any) { viol("c19:accept:" + cls + ":throw", "valid literal rejected: " + t.type + ": " + t.what); end_case(); return; }
    if (host != wantHost) viol("c19:accept:" + cls + ":host", "host() = '" + host + "' want '" + wantHost + "'");
    if (port != wantPort) viol("c19:accept:" + cls + ":port", "port() = " + std::to_string(port) + " want " + std::to_string(wantPort));
    if (fam != wantFamily) viol("c19:accept:" + cls + ":family", "family() wrong");
    // printing gives back an equivalent text
    std::string h2; int p2 = -1, f2 = -1;
    Thrown t2 = guarded([&] { Address b(printed); h2 = b.host(); p2 = b.port(); f2 = b.family(); });
    std::string famname = wantFamily == AF_INET6 ? "v6" : "v4";
    if (t2.any) viol("c19:print:" + famname + ":unparsable", "printed form '" + printed + "' is rejected: " + t2.what);
    else if (h2 != host || p2 != port || f2 != fam) viol("c19:print:" + famname + ":differs", "printed form '" + printed + "' parses to another address");
    g_distinct.add("ok:" + cls + ":" + std::to_string(fnv(text) % 4096));
    count("addr_accept");
    maybe_sample("addr", text, "printed " + printed);
    end_case();
}
static void c19_expect_reject(const std::string& text, const std::string& cls, bool viaPortCtor = false) {
    BEGIN(viaPortCtor ? "port-reject" : "addr-reject", cls, text);
    std::string got;
    Thrown t = guarded([&] {
        if (viaPortCtor) { Port p(text); got = std::to_string((uint16_t)p); }
        else { Address a(text); got = a.host() + " port " + std::to_string((uint16_t)a.port()); }
    });
    if (!t.any) viol("c19:reject:" + cls + ":accepted", "'" + text + "' accepted as " + got);
    else if (t.type != "invalid_argument") viol("c19:reject:" + cls + ":" + t.type, "'" + text + "' rejected with " + t.type + " (" + t.what + ") instead of invalid_argument");
    g_distinct.add("rej:" + cls + ":" + std::to_string(fnv(text) % 4096));
    count("addr_reject");
    end_case();
}
// Address(host, Port): the host text goes through the same literal rules; a host that carries a port of its own, or is malformed, is
// not a host literal
static void c19_hostport_ctor(const std::string& host, int port, const std::string& cls, bool wantOk, const std::string& wantHost = "", int wantFamily = 0) {
    BEGIN(wantOk ? "hostport-accept" : "hostport-reject", cls, host + " + Port(" + std::to_string(port) + ")");
    std::string gotHost; int gotPort = -1, fam = -1;
    Thrown t = guarded([&] { Address a(host, Port((uint16_t)port)); gotHost = a.host(); gotPort = (uint16_t)a.port(); fam = a.family(); });
    if (wantOk) {
        if (t.any) viol("c19:accept:hostport-ctor:" + cls + ":throw", "Address(\"" + host + "\", Port(" + std::to_string(port) + ")) rejected: " + t.what);
        else if (gotHost != wantHost || gotPort != port || fam != wantFamily) viol("c19:accept:hostport-ctor:" + cls + ":value", "Address(\"" + host + "\", Port(" + std::to_string(port) + ")) = " + gotHost + " port " + std::to_string(gotPort));
        count("hostport_accept");
    } else {
        if (!t.any) viol("c19:reject:hostport-ctor:" + cls + ":accepted", "Address(\"" + host + "\", Port(" + std::to_string(port) + ")) accepted as " + gotHost + " port " + std::to_string(gotPort));
        else if (t.type != "invalid_argument") viol("c19:reject:hostport-ctor:" + cls + ":" + t.type, "Address(\"" + host + "\", Port) rejected with " + t.type + " instead of invalid_argument");
        count("hostport_reject");
    }
    g_distinct.add("hp:" + cls + ":" + std::to_string(fnv(host) % 512));
    end_case();
}
// an address built from an IP object (four octets / eight groups, any(), loopback()) and a port: host(), family(), port() are those of the
// numbers given, and the printed text parses back to an equal address (the text form is what the property is about; the IP object is
// the other way to obtain one); also the (const char*) constructor, which has to behave like the std::string one
static void c19_from_ip(Rng& r) {
    bool v6 = r.chance(1, 2); int port = (int)r.below(65536);
    std::string want; IP ip;
    int w = r.range(0, 9);
    if (!v6) { uint8_t o[4]; for (auto& x : o) x = (uint8_t)(r.chance(1, 4) ? (r.chance(1, 2) ? 0 : 255) : r.below(256)); if (w == 0) { ip = IP::any(); want = "0.0.0.0"; } else if (w == 1) { ip = IP::loopback(); want = "127.0.0.1"; } else if (w == 2) { ip = IP::any(false); want = "0.0.0.0"; } else if (w == 3) { ip = IP::loopback(false); want = "127.0.0.1"; }
        else { ip = IP(o[0], o[1], o[2], o[3]); want = std::to_string(o[0]) + "." + std::to_string(o[1]) + "." + std::to_string(o[2]) + "." + std::to_string(o[3]); } }
    else { uint16_t g[8]; for (auto& x : g) x = (uint16_t)(r.chance(1, 3) ? 0 : r.chance(1, 6) ? 0xffff : r.below(65536)); if (w == 0) { ip = IP::any(true); for (auto& x : g) x = 0; } else if (w == 1) { ip = IP::loopback(true); for (auto& x : g) x = 0; g[7] = 1; } else ip = IP(g[0], g[1], g[2], g[3], g[4], g[5], g[6], g[7]);
        unsigned char raw[16]; for (int i = 0; i < 8; i++) { raw[2 * i] = (unsigned char)(g[i] >> 8); raw[2 * i + 1] = (unsigned char)(g[i] & 0xff); } char buf[INET6_ADDRSTRLEN]; inet_ntop(AF_INET6, raw, buf, sizeof buf); want = buf; }
    std::string cls = v6 ? "from-ip-v6" : "from-ip-v4";
    BEGIN("addr-from-ip", cls, want + " port " + std::to_string(port));
    std::string host, printed; int gp = -1, fam = -1;
    Thrown t = guarded([&] { Address a(ip, Port((uint16_t)port)); host = a.host(); gp = a.port(); fam = a.family(); printed = addr_print(a); });
    if (t.any) viol("c19:from-ip:" + cls + ":throw", "Address(IP, Port) threw " + t.type + ": " + t.what);
    else {
        if (host != want) viol("c19:from-ip:" + cls + ":host", "host() = '" + host + "' want '" + want + "'");
        if (gp != port) viol("c19:from-ip:" + cls + ":port", "port() = " + std::to_string(gp) + " want " + std::to_string(port));
        if (fam != (v6 ? AF_INET6 : AF_INET)) viol("c19:from-ip:" + cls + ":family", "family() wrong");
        std::string h2; int p2 = -1, f2 = -1;
        Thrown t2 = guarded([&] { Address b(printed.c_str()); h2 = b.host(); p2 = b.port(); f2 = b.family(); });
        if (t2.any) viol(std::string("c19:print:") + (v6 ? "v6" : "v4") + ":unparsable", "printed form '" + printed + "' of an address built from an IP object is rejected: " + t2.what);
        else if (h2 != host || p2 != gp || f2 != fam) viol(std::string("c19:print:") + (v6 ? "v6" : "v4") + ":differs", "printed form '" + printed + "' parses to another address (" + h2 + " port " + std::to_string(p2) + ")");
    }
    g_distinct.add("fromip:" + cls + ":" + std::to_string(fnv(want) % 2048));
    count("addr_from_ip_object");
    maybe_sample("addr-from-ip", want + " port " + std::to_string(port), "printed " + printed);
    end_case();
}
static void c19_observe(const std::string& text, const std::string& cls) {
    BEGIN("addr-observe", cls, text);
    Thrown t = guarded([&] { Address a(text); (void)a.host(); });
    count(std::string("observe_") + cls + (t.any ? "_rejected" : "_accepted"));
    end_case();
}
static std::string v6text(const unsigned char b[16]) { char buf[INET6_ADDRSTRLEN]; inet_ntop(AF_INET6, b, buf, sizeof buf); return buf; }
static void run_c19(long cases) {
    Rng& r = g_rng;
    const char* hosts4[] = {"127.0.0.1", "0.0.0.0", "255.255.255.255", "10.1.2.3"};
    // all ports, sharded
    for (int p = g_opts.shard; p < 65536; p += g_opts.nshards) {
        const char* h = hosts4[p % 4];
        c19_expect_ok(std::string(h) + ":" + std::to_string(p), h, p, AF_INET, "v4-port");
        if (p % 16 == 0) {
            if (!begin_case("port-ok", "all", std::to_string(p))) continue;
            int got = -1;
            Thrown t = guarded([&] { Port q(std::to_string(p)); got = (uint16_t)q; });
            if (t.any || got != p) viol("c19:port:value", "Port(\"" + std::to_string(p) + "\") = " + std::to_string(got));
            // Address(host, Port)
            Thrown t2 = guarded([&] { Address a(std::string("[::1]"), Port((uint16_t)p)); if ((uint16_t)a.port() != p || a.family() != AF_INET6 || a.host() != "::1") throw std::logic_error("mismatch"); });
            if (t2.any) viol("c19:accept:v6-hostport:" + t2.type, "Address(\"[::1]\", Port) wrong: " + t2.what);
            count("port_ctor"); end_case();
        }
    }
    long n = cases;
    for (long i = 0; i < n; i++) {
        int kind = r.range(0, 9);
        if (r.chance(1, 12)) { c19_from_ip(r); continue; }
        if (kind <= 1) {  // random dotted quad
            int a = r.range(0, 255), b = r.range(0, 255), c = r.range(0, 255), d = r.range(0, 255);
            if (r.chance(1, 8)) { a = r.pick(std::vector<int>{0, 1, 9, 10, 99, 100, 199, 200, 249, 250, 255}); }
            std::string h = std::to_string(a) + "." + std::to_string(b) + "." + std::to_string(c) + "." + std::to_string(d);
            if (r.chance(1, 2)) c19_expect_ok(h, h, 80, AF_INET, "v4-noport");
            else if (r.chance(1, 5)) {   // decimal port with leading zeros: still that decimal number
                int p = r.chance(1, 2) ? r.pick(std::vector<int>{8, 9, 10, 17, 80, 443, 777, 8080}) : r.range(0, 65535);
                std::string pt = std::string((size_t)r.range(1, 3), '0') + std::to_string(p);
                if (r.chance(1, 2)) c19_expect_ok(h + ":" + pt, h, p, AF_INET, "port-leading-zeros");
                else c19_expect_ok("[::1]:" + pt, "::1", p, AF_INET6, "port-leading-zeros");
            }
            else { int p = r.range(0, 65535); c19_expect_ok(h + ":" + std::to_string(p), h, p, AF_INET, "v4-port"); }
        } else if (kind <= 3) {  // IPv6
            unsigned char b[16];
            int style = r.range(0, 5);
            for (auto& x : b) x = (unsigned char)r.below(256);
            if (style == 1) memset(b, 0, 16);
            if (style == 2) { memset(b, 0, 16); b[15] = 1; }
            if (style == 3) { memset(b, 0, 10); b[10] = b[11] = 0xff; }                    // v4-mapped
            if (style == 4) { int z = r.range(0, 12), l = r.range(2, 16 - z); memset(b + z, 0, l); }  // compressible run
            if (style == 5) { for (int k = 0; k < 16; k += 2) if (r.chance(1, 2)) { b[k] = 0; } }      // short groups
            std::string canon = v6text(b);
            std::string lit = canon;
            std::string cls = "v6-canon";
            if (r.chance(1, 3)) {  // full uncompressed form
                char buf[64]; snprintf(buf, sizeof buf, "%x:%x:%x:%x:%x:%x:%x:%x", (b[0] << 8) | b[1], (b[2] << 8) | b[3], (b[4] << 8) | b[5], (b[6] << 8) | b[7], (b[8] << 8) | b[9], (b[10] << 8) | b[11], (b[12] << 8) | b[13], (b[14] << 8) | b[15]);
                lit = buf; cls = "v6-full";
                if (r.chance(1, 2)) { lit = rnd_case(r, lit); cls = "v6-full-case"; }
            }
            else if (r.chance(1, 4)) {   // six zero-padded groups and a dotted-quad tail: up to 45 characters, the longest form an IPv6 literal has
                char buf[64]; snprintf(buf, sizeof buf, "%04x:%04x:%04x:%04x:%04x:%04x:%u.%u.%u.%u", (b[0] << 8) | b[1], (b[2] << 8) | b[3], (b[4] << 8) | b[5], (b[6] << 8) | b[7], (b[8] << 8) | b[9], (b[10] << 8) | b[11], b[12], b[13], b[14], b[15]);
                lit = buf; cls = "v6-padded-with-v4-tail";
            }
            if (r.chance(1, 2)) c19_expect_ok("[" + lit + "]", canon, 80, AF_INET6, cls + "-noport");
            else { int p = r.range(0, 65535); c19_expect_ok("[" + lit + "]:" + std::to_string(p), canon, p, AF_INET6, cls + "-port"); }
        } else if (kind == 4) {  // aliases
            int p = r.range(0, 65535);
            int w = r.range(0, 3);
            if (w == 0) c19_expect_ok("*", "0.0.0.0", 80, AF_INET, "alias-star");
            else if (w == 1) c19_expect_ok("*:" + std::to_string(p), "0.0.0.0", p, AF_INET, "alias-star");
            else if (w == 2) c19_expect_ok("localhost", "127.0.0.1", 80, AF_INET, "alias-localhost");
            else c19_expect_ok("localhost:" + std::to_string(p), "127.0.0.1", p, AF_INET, "alias-localhost");
        } else if (kind <= 6) {  // bad ports
            std::string host = r.chance(1, 3) ? "[::1]" : r.chance(1, 2) ? "127.0.0.1" : "*";
            int w = r.range(0, 7);
            std::string port, cls;
            if (w == 0) { port = ""; cls = "port-empty"; }
            else if (w == 1) { if (r.chance(1, 3)) { port = r.pick(std::vector<std::string>{"0x50", "0X1F90", "0x0", "0xffff", "0b101", "1e3", "+0x10", "0x"}); cls = "port-other-radix"; } else { port = rnd_token(r, 1, 5, "abcxyzGH"); cls = "port-nonnumeric"; } }
            else if (w == 2) { port = "-" + std::to_string(r.range(1, 70000)); cls = "port-negative"; }
            else if (w == 3) { port = std::to_string(65536 + (long)r.below(r.chance(1, 2) ? 10 : 5000000)); cls = "port-above"; }
            else if (w == 4) { port = std::to_string(r.range(0, 65535)) + rnd_token(r, 1, 2, "abx :"); cls = "port-trailing-garbage"; }
            else if (w == 5) { port = "99999999999999999999" + std::to_string(r.range(0, 99)); cls = "port-huge"; }
            else if (w == 6) { port = std::to_string(65536 * (long)r.range(1, 40000) + r.range(0, 65535)); cls = "port-wraps-16bit"; }
            else { port = "4294967376"; cls = "port-wraps-32bit"; }
            c19_expect_reject(host + ":" + port, cls);
            if (w != 4 || port.find(' ') == std::string::npos) c19_expect_reject(port, cls, true);
        } else if (kind == 7) {  // malformed literals
            int w = r.range(0, 9);
            std::string t, cls;
            int a = r.range(0, 255), b = r.range(0, 255), c = r.range(0, 255);
            std::string pfx = std::to_string(a) + "." + std::to_string(b) + "." + std::to_string(c) + ".";
            if (w == 0) { t = pfx + std::to_string(r.range(256, 999)); cls = "v4-octet-range"; }
            else if (w == 1) { t = pfx + std::to_string(r.range(0, 255)) + "." + std::to_string(r.range(0, 255)); cls = "v4-five-parts"; }
            else if (w == 2) { t = std::to_string(a) + ".." + std::to_string(b) + "." + std::to_string(c); cls = "v4-empty-part"; }
            else if (w == 3) { t = "[::1"; cls = "v6-unbalanced"; }
            else if (w == 4) { t = "::1]"; cls = "v6-unbalanced"; }
            else if (w == 5) { t = "[1::2::3]"; cls = "v6-double-compress"; }
            else if (w == 6) { t = "[1:2:3:4:5:6:7:8:9]"; cls = "v6-nine-groups"; }
            else if (w == 7) { t = "[12345::1]"; cls = "v6-group-range"; }
            else if (w == 8) { t = "[::g]"; cls = "v6-nonhex"; }
            else { t = "[]"; cls = "v6-empty"; }
            if (r.chance(1, 4)) {   // text around the brackets
                static const char* PRE[] = {"x", "1.2.3.4", " ", ":", "http://", "]"};
                static const char* POST[] = {"8080", "x", "]", " "};
                if (r.chance(1, 2)) { t = std::string(r.pick(PRE)) + "[::1]"; cls = "v6-text-before-bracket"; }
                else { t = std::string("[::1]") + r.pick(POST); cls = "v6-text-after-bracket"; }
            }
            if (r.chance(1, 5)) {   // arbitrary address-like text in front of a bracket pair with arbitrary content: whatever the pieces are, the whole is not a literal
                static const char* PRE2[] = {":", "::", "x::", "1::", "::1", "a:b", "1:2:3:4:5:6:7", "f", "::ffff:1.2.3", "0", "[", "::[", "1.2.3"};
                static const char* IN2[] = {"yy", "1", "::", "::1", "x", "1.2.3.4", "ab", "abc", "a:b:c", "::12", "0"};
                t = std::string(r.pick(PRE2)) + (r.chance(1, 3) ? rnd_token(r, 0, 3, ":x1a") : std::string()) + "[" + (r.chance(1, 3) ? rnd_token(r, 1, 6, ":y1a.") : std::string(r.pick(IN2))) + "]";
                cls = "v6-text-before-bracket";
            }
            if (r.chance(1, 2)) t += ":" + std::to_string(r.range(1, 65535));
            c19_expect_reject(t, cls);
        } else if (kind == 8 && r.chance(1, 2)) {  // the two-argument constructor
            int p = r.chance(1, 3) ? r.pick(std::vector<int>{0, 1, 80, 65535}) : r.range(0, 65535);
            int a = r.range(0, 255), b = r.range(0, 255), c = r.range(0, 255), d = r.chance(1, 6) ? 255 : r.range(0, 255);
            if (r.chance(1, 10)) a = b = c = d = 255;
            std::string q4 = std::to_string(a) + "." + std::to_string(b) + "." + std::to_string(c) + "." + std::to_string(d);
            unsigned char v6[16]; for (auto& x : v6) x = (unsigned char)r.below(256); if (r.chance(1, 3)) { memset(v6, 0, 16); v6[15] = (unsigned char)r.below(3); }
            std::string c6 = v6text(v6);
            int w = r.range(0, 8);
            if (w == 0) c19_hostport_ctor(q4, p, "v4", true, q4, AF_INET);
            else if (w == 1) c19_hostport_ctor("[" + c6 + "]", p, "v6", true, c6, AF_INET6);
            else if (w == 2) { bool star = r.chance(1, 2); c19_hostport_ctor(star ? "*" : "localhost", p, "alias", true, star ? "0.0.0.0" : "127.0.0.1", AF_INET); }
            else if (w == 3) c19_hostport_ctor(q4 + ":" + std::to_string(r.range(0, 65535)), p, "v4-host-carries-a-port", false);
            else if (w == 4) c19_hostport_ctor("[" + c6 + "]:" + std::to_string(r.range(0, 65535)), p, "v6-host-carries-a-port", false);
            else if (w == 5) c19_hostport_ctor(std::string(r.chance(1, 2) ? "*" : "localhost") + ":" + std::to_string(r.range(0, 65535)), p, "alias-host-carries-a-port", false);
            else if (w == 6) c19_hostport_ctor(q4 + ":", p, "host-ends-in-colon", false);
            else if (w == 7) c19_hostport_ctor(std::to_string(a) + "." + std::to_string(b) + "." + std::to_string(c) + "." + std::to_string(r.range(256, 999)), p, "v4-octet-range", false);
            else c19_hostport_ctor(r.chance(1, 2) ? "[::1" : "[1::2::3]", p, "v6-malformed", false);
        } else if (kind == 8) {  // empty / colon-only
            int w = r.range(0, 2);
            if (w == 0) c19_expect_reject(":", "port-empty");
            else if (w == 1) c19_expect_reject("127.0.0.1:", "port-empty");
            else c19_expect_reject("[::1]:", "port-empty");
        } else {  // forms the statement does not name: observed only
            int w = r.range(0, 4);
            if (w == 0) c19_observe("127.0.0.1:+80", "plus-port");
            else if (w == 1) c19_observe("127.0.0.1: 80", "blank-port");
            else if (w == 2) c19_observe("1.2.3", "inet_aton-shorthand");
            else if (w == 3) c19_observe("127.0.0.1:-0", "minus-zero-port");
            else c19_observe("x[::1]:80", "text-before-bracket");
        }
    }
}

// =====================================================================================
// C18 media types
using namespace Pistache::Http;
struct NamedType { Mime::Type t; const char* s; };
struct NamedSub { Mime::Subtype t; const char* s; };
struct NamedSuf { Mime::Suffix t; const char* s; };
static const NamedType TYPES[] = {
#define TYPE(v, s) {Mime::Type::v, s},
    MIME_TYPES
#undef TYPE
};
static const NamedSub SUBS[] = {
#define SUB_TYPE(v, s) {Mime::Subtype::v, s},
    MIME_SUBTYPES
#undef SUB_TYPE
};
static const NamedSuf SUFS[] = {
#define SUFFIX(v, s, d) {Mime::Suffix::v, s},
    MIME_SUFFIXES
#undef SUFFIX
};
static const size_t NT = sizeof(TYPES) / sizeof(TYPES[0]), NS = sizeof(SUBS) / sizeof(SUBS[0]), NF = sizeof(SUFS) / sizeof(SUFS[0]);

struct MimeIntent {
    int ti, si, fi;             // fi == -1: none
    int q;                      // -1 none
    std::vector<std::pair<std::string, std::string>> params;
};
static std::string PARAMKEYCH = "abcdefghijklmnoprstuvwxyzABCDEFGHIJKLMNOPRSTUVWXYZ0123456789-_";  // (no q/Q: see class q-named-param)
static std::string PARAMVALCH = "abcdefghijklmnopqrstuvwxyzABCDEFGHIJKLMNOPQRSTUVWXYZ0123456789-_.*+/";
static MimeIntent gen_mime(Rng& r, bool allowQNames) {
    MimeIntent m;
    m.ti = (int)r.below(NT); m.si = (int)r.below(NS); m.fi = r.chance(1, 2) ? -1 : (int)r.below(NF);
    m.q = r.chance(1, 2) ? -1 : r.range(0, 100);
    int np = r.chance(1, 2) ? 0 : r.range(1, 3);
    std::set<std::string> used;
    for (int i = 0; i < np; i++) {
        std::string k = rnd_token(r, 1, 8, PARAMKEYCH.c_str());
        if (allowQNames && r.chance(1, 2)) k = std::string(r.chance(1, 2) ? "q" : "Q") + k;
        if (!used.insert(k).second) continue;
        m.params.push_back({k, rnd_token(r, 1, 10, PARAMVALCH.c_str())});
    }
    return m;
}
static Mime::MediaType build_mime(const MimeIntent& m) {
    Mime::MediaType mt = m.fi < 0 ? Mime::MediaType(TYPES[m.ti].t, SUBS[m.si].t) : Mime::MediaType(TYPES[m.ti].t, SUBS[m.si].t, SUFS[m.fi].t);
    if (m.q >= 0) mt.setQuality(Mime::Q((Mime::Q::Type)m.q));
    for (auto& p : m.params) mt.setParam(p.first, p.second);
    return mt;
}
static void check_mime_against(const Mime::MediaType& got, const MimeIntent& m, const std::string& keybase) {
    if (got.top() != TYPES[m.ti].t) viol(keybase + ":top", "top type differs");
    if (got.sub() != SUBS[m.si].t) viol(keybase + ":sub", std::string("subtype differs for ") + SUBS[m.si].s);
    Mime::Suffix ws = m.fi < 0 ? Mime::Suffix::None : SUFS[m.fi].t;
    if (got.suffix() != ws) viol(keybase + ":suffix", "suffix differs");
    if (m.q < 0) { if (got.q().has_value()) viol(keybase + ":q-spurious", "quality appeared"); }
    else if (!got.q().has_value()) viol(keybase + ":q-lost", "quality lost");
    else if (got.q()->value() != m.q) viol(keybase + ":q-value", "quality " + std::to_string(got.q()->value()) + " want " + std::to_string(m.q));
    for (auto& p : m.params) {
        auto v = got.getParam(p.first);
        if (!v) viol(keybase + ":param-lost", "parameter " + p.first + " lost");
        else if (*v != p.second) viol(keybase + ":param-value", "parameter " + p.first + " = '" + *v + "' want '" + p.second + "'");
    }
}
static void c18_built(const MimeIntent& m, const std::string& cls) {
    std::string text;
    Thrown t0 = guarded([&] { text = build_mime(m).toString(); });
    BEGIN("mime-built", cls, text);
    if (t0.any) { viol("c18:build:" + cls + ":throw", "toString of a built media type threw"); end_case(); return; }
    Fence& f = fence_slot(); f.place(text.data(), text.size());
    Mime::MediaType got;
    Thrown t = guarded([&] { got = Mime::MediaType::fromRaw(f.ptr, f.len); });
    if (t.any) viol("c18:rt:" + cls + ":throw", "string form '" + text + "' of a built media type is rejected: " + t.type + ": " + t.what);
    else {
        check_mime_against(got, m, "c18:rt:" + cls);
        std::string again = got.toString();
        if (again != text) viol("c18:rt:" + cls + ":tostring", "toString() of parsed != text it was parsed from");
    }
    // the built object goes on living: its string form follows what the setters do AFTER it has been asked for once.  (A PARSED object keeps the
    // text it was parsed from as its string form whatever is set on it later - observed, and not judged: the statement says exactly that of parsed ones.)
    if (!t.any) {
        for (int which = 0; which < 1; which++) {
            MimeIntent m2 = m; m2.q = (m.q < 0 ? 37 : (m.q + 41) % 101); m2.params.clear(); for (auto& pr : m.params) m2.params.push_back(pr);
            bool addParam = (fnv(text) + (uint64_t)which) % 2 == 0; if (addParam) { bool have = false; for (auto& pr : m2.params) if (pr.first == "later") have = true; if (!have) m2.params.push_back({"later", "v" + std::to_string(fnv(text) % 97)}); }
            std::string text2; Thrown t2 = guarded([&] { Mime::MediaType obj = which == 0 ? build_mime(m) : got; (void)obj.toString(); obj.setQuality(Mime::Q((Mime::Q::Type)m2.q)); if (addParam) obj.setParam(m2.params.back().first, m2.params.back().second); text2 = obj.toString(); });
            if (t2.any) { viol("c18:rt:" + cls + ":later-setters:throw", "setters after a first toString() threw"); continue; }
            Mime::MediaType back; Thrown t3 = guarded([&] { back = Mime::MediaType::fromString(text2); });
            if (t3.any) viol("c18:rt:" + cls + ":later-setters:unparsable", "string form '" + text2 + "' after later setters is rejected");
            else check_mime_against(back, m2, std::string("c18:rt:") + cls + ":later-setters:" + (which == 0 ? "built" : "parsed"));
        }
        count("mime_setters_after_tostring");
    }
    g_distinct.add("mb:" + std::to_string(m.ti) + "/" + std::to_string(m.si) + "+" + std::to_string(m.fi) + ":" + (m.q < 0 ? "n" : m.q == 0 ? "0" : m.q == 100 ? "1" : m.q % 10 == 0 ? "t" : "h") + ":" + std::to_string(m.params.size()));
    count("mime_built");
    maybe_sample("mime", text);
    end_case();
}
// text assembled by hand: arbitrary letter case, vendor / extension subtypes, extension suffix
static void c18_text(Rng& r) {
    int ti = (int)r.below(NT);
    std::string top = rnd_case(r, TYPES[ti].s);
    int subKind = r.range(0, 2);  // 0 known, 1 vendor, 2 ext
    std::string sub; Mime::Subtype wantSub; int si = -1;
    static const char* SUBCH = "abcdefghijklmnopqrstuvwxyz0123456789-.";
    if (subKind == 0) { si = (int)r.below(NS); sub = rnd_case(r, SUBS[si].s); wantSub = SUBS[si].t; }
    else if (subKind == 1) { sub = "vnd." + rnd_token(r, 1, 12, SUBCH); wantSub = Mime::Subtype::Vendor; }
    else {
        sub = "x-" + rnd_token(r, 1, 12, SUBCH); wantSub = Mime::Subtype::Ext;
    }
    int sufKind = r.range(0, 2);  // 0 none 1 known 2 ext
    std::string suf; Mime::Suffix wantSuf = Mime::Suffix::None;
    if (sufKind == 1) { int fi = (int)r.below(NF); suf = rnd_case(r, SUFS[fi].s); wantSuf = SUFS[fi].t; }
    else if (sufKind == 2) { suf = "y" + rnd_token(r, 1, 6, "abcdefghijklmnoprstuvwyz0123456789"); wantSuf = Mime::Suffix::Ext; }
    std::string text = top + "/" + sub + (sufKind ? "+" + suf : "");
    int q = r.chance(1, 2) ? -1 : r.range(0, 100);
    std::string qtxt;
    if (q >= 0) {
        char b[16];
        int style = r.range(0, 2);
        if (q == 100) qtxt = style == 0 ? "1" : style == 1 ? "1.0" : "1.00";
        else if (q == 0) qtxt = style == 0 ? "0" : style == 1 ? "0.0" : "0.00";
        else if (q % 10 == 0 && style == 0) { snprintf(b, sizeof b, "0.%d", q / 10); qtxt = b; }
        else { snprintf(b, sizeof b, "0.%02d", q); qtxt = b; }
        text += std::string(r.chance(1, 2) ? "; " : ";") + (r.chance(1, 4) ? "Q=" : "q=") + qtxt;
    }
    std::vector<std::pair<std::string, std::string>> params;
    int np = r.chance(1, 2) ? 0 : r.range(1, 3);
    std::set<std::string> used;
    for (int i = 0; i < np; i++) {
        std::string k = rnd_token(r, 1, 8, PARAMKEYCH.c_str());
        if (!used.insert(k).second) continue;
        std::string v = rnd_token(r, 1, 10, PARAMVALCH.c_str());
        params.push_back({k, v});
        text += std::string(r.chance(1, 2) ? "; " : ";") + k + "=" + v;
    }
    std::string cls = std::string(subKind == 0 ? "known" : subKind == 1 ? "vendor" : "ext") + (sufKind == 0 ? "" : sufKind == 1 ? "+suffix" : "+extsuffix");
    BEGIN("mime-text", cls, text);
    Fence& f = fence_slot(); f.place(text.data(), text.size());
    Mime::MediaType got;
    Thrown t = guarded([&] { got = Mime::MediaType::fromRaw(f.ptr, f.len); });
    if (t.any) viol("c18:text:" + cls + ":throw", "media type '" + text + "' rejected: " + t.type + ": " + t.what);
    else {
        if (got.top() != TYPES[ti].t) viol("c18:text:" + cls + ":top", "top type differs");
        if (got.sub() != wantSub) viol("c18:text:" + cls + ":sub", "subtype differs for '" + sub + "'");
        if (subKind != 0 && got.rawSub() != sub) viol("c18:text:" + cls + ":rawsub", "rawSub() = '" + got.rawSub() + "' want '" + sub + "'");
        if (got.suffix() != wantSuf) viol("c18:text:" + cls + ":suffix", "suffix differs for '" + suf + "'");
        if (q >= 0 && (!got.q().has_value() || got.q()->value() != q)) viol("c18:text:" + cls + ":q", "quality differs for q=" + qtxt);
        if (q < 0 && got.q().has_value()) viol("c18:text:" + cls + ":q-spurious", "quality appeared");
        for (auto& p : params) { auto v = got.getParam(p.first); if (!v || *v != p.second) viol("c18:text:" + cls + ":param", "parameter " + p.first + " wrong"); }
        if (got.toString() != text) viol("c18:text:" + cls + ":tostring", "toString() != parsed text");
    }
    g_distinct.add("mt:" + cls + ":" + std::to_string(ti) + ":" + std::to_string(si) + ":" + (q < 0 ? "n" : "q") + std::to_string(params.size()) + ":" + std::to_string(fnv(text) % 64));
    count("mime_text");
    end_case();
}
static void c18_invalid(Rng& r) {
    int w = r.range(0, 11);
    std::string text, cls;
    std::string good = std::string(TYPES[r.below(NT)].s) + "/" + SUBS[r.below(NS)].s;
    switch (w) {
    case 0: text = rnd_token(r, 1, 10, "abcdefghijklmnopqrstuvwxyz"); cls = "no-slash"; if (text == "*") text = "x"; break;
    case 1: text = "z" + rnd_token(r, 1, 6, "bcdfghjklnqrz") + "/plain"; cls = "unknown-top"; break;
    case 2: text = std::string(TYPES[r.below(NT)].s) + "/"; cls = "missing-subtype"; break;
    case 3: text = std::string(TYPES[r.below(NT)].s); cls = "top-only"; break;
    case 4: text = good + "+"; cls = "plus-then-end"; break;
    case 5: text = good + ";"; cls = "semicolon-then-end"; break;
    case 6: text = good + "; q"; cls = "q-then-end"; break;
    case 7: text = good + "; q="; cls = "q-equals-then-end"; break;
    case 8: if (r.chance(1, 2)) { text = good + "; q=" + rnd_token(r, 1, 3, "abcxyz"); cls = "q-not-number"; }
            else {   // words and magnitudes that a C number reader accepts but that are no quality value (0..1)
                static const char* W[] = {"nan", "NaN", "NAN", "-nan", "+nan", "nan(1)", "nan()", "inf", "-inf", "INF", "Infinity", "infinity", "1e999", "-1e999", "-0.5", "-1", "1e1", "2e0", "1.0001", "-1e-1"};
                text = good + "; q=" + r.pick(W); if (r.chance(1, 3)) text += "; charset=utf-8"; cls = "q-not-a-quality-value"; }
            break;
    case 9: text = good + "; charset"; cls = "param-without-value"; break;
    case 10: text = good + "; charset="; cls = "param-equals-then-end"; break;
    default: text = good + "; q=" + std::to_string(r.range(2, 9)) + (r.chance(1, 2) ? ".5" : ""); cls = "q-out-of-range"; break;
    }
    if (w == 0 && r.chance(1, 2)) { text = std::string(r.chance(1, 2) ? "\n" : "\x0a") + "/" + (r.chance(1, 2) ? "\n" : "plain"); cls = "control-char-for-star"; }
    BEGIN("mime-invalid", cls, text);
    Fence& f = fence_slot(); f.place(text.data(), text.size());
    Thrown t = guarded([&] { (void)Mime::MediaType::fromRaw(f.ptr, f.len); });
    if (!t.any) viol("c18:reject:" + cls + ":accepted", "'" + text + "' accepted as a media type");
    else if (t.type != "HttpError" || t.code != 415) viol("c18:reject:" + cls + ":" + t.type, "'" + text + "' rejected with " + t.type + " " + std::to_string(t.code) + " (" + t.what + "), not HttpError 415");
    g_distinct.add("mi:" + cls + ":" + std::to_string(fnv(text) % 128));
    count("mime_invalid");
    end_case();
}
static std::string mutate(Rng& r, std::string s, const char* special) {
    int m = r.range(1, 3);
    size_t sl = strlen(special);
    for (int k = 0; k < m; k++) {
        int op = r.range(0, 7);
        size_t pos = s.empty() ? 0 : r.below(s.size() + 1);
        if (op == 7) put_magic_number(r, s);
        else if (op == 0 && !s.empty()) s.resize(r.below(s.size() + 1));
        else if (op == 1 && pos < s.size()) s.erase(pos, r.range(1, 3));
        else if (op == 2) s.insert(std::min(pos, s.size()), 1, special[r.below(sl)]);
        else if (op == 3 && pos < s.size()) s[pos] = (char)r.below(256);
        else if (op == 4 && pos < s.size()) s[pos] ^= (char)(1 << r.below(8));
        else if (op == 5 && !s.empty()) { size_t a = r.below(s.size()), l = r.range(1, 6); s.insert(pos > s.size() ? s.size() : pos, s.substr(a, l)); }
        else if (op == 6) s.insert(std::min(pos, s.size()), std::string((size_t)r.range(1, 30), "9eE.-+0 "[r.below(8)]));
    }
    return s;
}
static void c18_mutant(Rng& r) {
    MimeIntent m = gen_mime(r, true);
    std::string text = mutate(r, build_mime(m).toString(), ";=+/ q.,\0");
    // also: cut right after each separator
    if (r.chance(1, 3)) { size_t p = text.find_first_of(";=+/ ", r.below(text.size() + 1)); if (p != std::string::npos) text.resize(p + 1); }
    BEGIN("mime-mutant", "mutant", text);
    Fence& f = fence_slot(); f.place(text.data(), text.size());
    Thrown t = guarded([&] { (void)Mime::MediaType::fromRaw(f.ptr, f.len); });
    // verdict on memory safety comes from the sanitizer / guard page; the exception type for arbitrary
    // garbage is only judged in c18_invalid where the text is "clearly not a media type"
    count(t.any ? "mime_mutant_rejected" : "mime_mutant_accepted");
    g_distinct.add("mm:" + std::to_string(fnv(text) % 100000));
    end_case();
}
static void c18_nearmiss(Rng& r) {
    // a known subtype with its '-' or '+' replaced by the control character that differs only in bit 0x20
    static const struct { const char* text; Mime::Subtype sub; } NM[] = {
        {"octet-stream", Mime::Subtype::OctetStream}, {"schema+json", Mime::Subtype::JsonSchema}, {"schema-instance+json", Mime::Subtype::JsonSchemaInstance},
        {"x-www-form-urlencoded", Mime::Subtype::FormUrlEncoded}, {"form-data", Mime::Subtype::FormData}};
    auto& e = NM[r.below(5)];
    std::string sub = e.text;
    std::vector<size_t> pos; for (size_t i = 0; i < sub.size(); i++) if (sub[i] == '-' || sub[i] == '+') pos.push_back(i);
    size_t p = r.pick(pos); sub[p] = (char)(sub[p] & ~0x20);
    std::string text = "application/" + sub;
    BEGIN("mime-invalid", "control-char-for-punctuation", text);
    Fence& f = fence_slot(); f.place(text.data(), text.size());
    Mime::MediaType got; Thrown t = guarded([&] { got = Mime::MediaType::fromRaw(f.ptr, f.len); });
    if (!t.any && got.sub() == e.sub) viol("c18:reject:control-char-for-punctuation:recognised", "'application/" + hex(sub) + "' (hex) parsed as the known subtype " + e.text);
    g_distinct.add("nm:" + std::string(e.text) + ":" + std::to_string(p));
    count("mime_nearmiss");
    end_case();
}
static void run_c18(long cases) {
    Rng& r = g_rng;
    // full product of known types x subtypes x suffixes (sharded)
    long idx = 0;
    for (size_t a = 0; a < NT; a++) for (size_t b = 0; b < NS; b++) for (int c = -1; c < (int)NF; c++, idx++) {
        if (idx % g_opts.nshards != g_opts.shard) continue;
        MimeIntent m{(int)a, (int)b, c, -1, {}};
        c18_built(m, "plain");
        m.q = (int)((a * 31 + b * 7 + (size_t)(c + 1)) % 101);
        c18_built(m, "q");
    }
    for (int q = g_opts.shard; q <= 100; q += g_opts.nshards) { MimeIntent m{1, 1, -1, q, {}}; c18_built(m, "q"); }
    for (long i = 0; i < cases; i++) {
        int k = r.range(0, 9);
        if (k <= 2) { MimeIntent m = gen_mime(r, false); c18_built(m, m.params.empty() ? (m.q >= 0 ? "q" : "plain") : "params"); }
        else if (k == 3) { MimeIntent m = gen_mime(r, true); bool qn = false; for (auto& p : m.params) if (p.first[0] == 'q' || p.first[0] == 'Q') qn = true; c18_built(m, qn ? "q-named-param" : (m.params.empty() ? "plain" : "params")); }
        else if (k <= 6) c18_text(r);
        else if (k == 7) { if (r.chance(1, 5)) c18_nearmiss(r); else c18_invalid(r); }
        else c18_mutant(r);
    }
}

// =====================================================================================
// C17 cookies
static const char* CNAMECH = "abcdefghijklmnopqrstuvwxyzABCDEFGHIJKLMNOPQRSTUVWXYZ0123456789-_.!#$%&'*+^`|~";
static const char* CVALCH = "abcdefghijklmnopqrstuvwxyzABCDEFGHIJKLMNOPQRSTUVWXYZ0123456789!#$%&'()*+-./:<=>?@[]^_`{|}~";
static const char* CPATHCH = "abcdefghijklmnopqrstuvwxyzABCXYZ0123456789/-_.~%=,";
struct CookieIntent {
    std::string name, value;
    bool hasPath = false, hasDomain = false, hasMaxAge = false, hasExpires = false, secure = false, httpOnly = false;
    std::string path, domain; int maxAge = 0; long expires = 0;
    std::map<std::string, std::string> ext;
    bool extCollides = false;
};
static bool attr_prefix_collision(const std::string& n) {
    static const char* A[] = {"path", "domain", "secure", "httponly", "max-age", "expires"};
    std::string l; for (char c : n) l += (char)tolower((unsigned char)c);
    for (auto a : A) if (l.compare(0, strlen(a), a) == 0) return true;
    return false;
}
static CookieIntent gen_cookie(Rng& r, int mask = -1, bool collide = false) {
    CookieIntent c;
    c.name = rnd_token(r, 1, 10, CNAMECH);
    c.value = r.chance(1, 6) ? "" : rnd_token(r, 1, 24, CVALCH);
    if (mask < 0) mask = (int)r.below(128);
    c.hasPath = mask & 1; c.hasDomain = mask & 2; c.hasMaxAge = mask & 4; c.hasExpires = mask & 8; c.secure = mask & 16; c.httpOnly = mask & 32;
    if (c.hasPath) c.path = "/" + rnd_token(r, 0, 12, CPATHCH);
    if (c.hasDomain) c.domain = rnd_token(r, 1, 8, "abcdefghijklmnopqrstuvwxyz0123456789-") + "." + rnd_token(r, 2, 3, "abcdefghijklmnopqrstuvwxyz");
    if (c.hasMaxAge) { int w = r.range(0, 4); c.maxAge = w == 0 ? 0 : w == 1 ? 1 : w == 2 ? INT_MAX : w == 3 ? INT_MAX - r.range(0, 9) : (int)r.below(INT_MAX); }
    if (c.hasExpires) { int w = r.range(0, 5); c.expires = w == 0 ? 0 : w == 1 ? 951782400 /*2000-02-29*/ + r.range(-2, 2) * 86400L : w == 2 ? 2147483647L + r.range(-3, 3) : w == 3 ? 4102444800L + r.range(0, 86400) : (long)r.below(4200000000ull); }
    if (mask & 64) {
        int n = r.range(1, 3);
        for (int i = 0; i < n; i++) {
            std::string k = rnd_token(r, 1, 8, "abcfgijklnoqrtuvwxyzABCFGIJKLNOQRTUVWXYZ0123456789-_");  // cannot start like a known attribute
            if (collide && i == 0) { static const char* P[] = {"Path", "Domain", "Secure", "HttpOnly", "Max-Age", "Expires", "path", "SECURE"}; k = std::string(r.pick(P)) + rnd_token(r, 1, 4, r.chance(1, 2) ? "xyz019" : "xyz019-_.~!+*"); c.extCollides = true; }   // (the name goes on with letters, digits or other token characters)
            if (attr_prefix_collision(k) && !c.extCollides) continue;
            c.ext[k] = r.chance(1, 4) ? "" : rnd_token(r, 1, 10, CVALCH);
        }
    }
    return c;
}
static Http::Cookie build_cookie(const CookieIntent& c) {
    Http::Cookie k(c.name, c.value);
    if (c.hasPath) k.path = c.path;
    if (c.hasDomain) k.domain = c.domain;
    if (c.hasMaxAge) k.maxAge = c.maxAge;
    if (c.hasExpires) k.expires = Http::FullDate(std::chrono::system_clock::time_point(std::chrono::seconds(c.expires)));
    k.secure = c.secure; k.httpOnly = c.httpOnly;
    k.ext = c.ext;
    return k;
}
static std::string cookie_cls(const CookieIntent& c) {
    std::string s;
    if (c.hasPath) s += "P"; if (c.hasDomain) s += "D"; if (c.hasMaxAge) s += "M"; if (c.hasExpires) s += "E"; if (c.secure) s += "S"; if (c.httpOnly) s += "H"; if (!c.ext.empty()) s += "X" + std::to_string(c.ext.size());
    return s.empty() ? "bare" : s;
}
static void compare_cookie(const Http::Cookie& got, const CookieIntent& c, const std::string& kb) {
    if (got.name != c.name) viol(kb + ":name", "name differs");
    if (got.value != c.value) viol(kb + ":value", "value '" + got.value + "' want '" + c.value + "'");
    if (got.path.has_value() != c.hasPath || (c.hasPath && *got.path != c.path)) viol(kb + ":path", "Path differs");
    if (got.domain.has_value() != c.hasDomain || (c.hasDomain && *got.domain != c.domain)) viol(kb + ":domain", "Domain differs");
    if (got.maxAge.has_value() != c.hasMaxAge || (c.hasMaxAge && *got.maxAge != c.maxAge)) viol(kb + ":maxage", "Max-Age differs: want " + std::to_string(c.maxAge) + " got " + (got.maxAge ? std::to_string(*got.maxAge) : "none"));
    if (got.expires.has_value() != c.hasExpires) viol(kb + ":expires-presence", "Expires presence differs");
    else if (c.hasExpires && got.expires->date() != std::chrono::system_clock::time_point(std::chrono::seconds(c.expires))) viol(kb + ":expires", "Expires differs");
    if (got.secure != c.secure) viol(kb + ":secure", "Secure differs");
    if (got.httpOnly != c.httpOnly) viol(kb + ":httponly", "HttpOnly differs");
    if (got.ext != c.ext) viol(kb + ":ext", "extension attributes differ (" + std::to_string(got.ext.size()) + " vs " + std::to_string(c.ext.size()) + ")");
}
static void c17_roundtrip(const CookieIntent& c) {
    std::string text;
    { std::ostringstream os; os << build_cookie(c); text = os.str(); }
    std::string cls = c.extCollides ? "ext-name-starts-like-attribute" : "rt";
    BEGIN("cookie-rt", cookie_cls(c), text);
    Fence& f = fence_slot(); f.place(text.data(), text.size());
    Thrown t = guarded([&] { Http::Cookie got = Http::Cookie::fromRaw(f.ptr, f.len); compare_cookie(got, c, "c17:" + cls); });
    if (t.any) viol("c17:" + cls + ":throw", "written cookie '" + text.substr(0, 200) + "' rejected: " + t.type + ": " + t.what);
    g_distinct.add("crt:" + cookie_cls(c) + ":" + (c.value.empty() ? "ev" : "v") + ":" + std::to_string(fnv(text) % 16));
    count("cookie_roundtrip");
    maybe_sample("cookie", text);
    end_case();
}
// attributes in arbitrary order and letter case, assembled by hand
static void c17_orders(Rng& r) {
    CookieIntent c = gen_cookie(r);
    std::vector<std::string> parts;
    auto nm = [&](const char* n) { return r.chance(1, 3) ? rnd_case(r, n) : std::string(n); };
    if (c.hasPath) parts.push_back(nm("Path") + "=" + c.path);
    if (c.hasDomain) parts.push_back(nm("Domain") + "=" + c.domain);
    if (c.hasMaxAge) parts.push_back(nm("Max-Age") + "=" + std::to_string(c.maxAge));
    if (c.hasExpires) { std::ostringstream os; Http::FullDate(std::chrono::system_clock::time_point(std::chrono::seconds(c.expires))).write(os); parts.push_back(nm("Expires") + "=" + os.str()); }
    if (c.secure) parts.push_back(nm("Secure"));
    if (c.httpOnly) parts.push_back(nm("HttpOnly"));
    for (auto& e : c.ext) parts.push_back(e.first + "=" + e.second);
    for (size_t i = parts.size(); i > 1; i--) std::swap(parts[i - 1], parts[r.below(i)]);
    std::string text = c.name + "=" + c.value;
    for (auto& p : parts) text += "; " + p;
    BEGIN("cookie-order", cookie_cls(c), text);
    Fence& f = fence_slot(); f.place(text.data(), text.size());
    Thrown t = guarded([&] { Http::Cookie got = Http::Cookie::fromRaw(f.ptr, f.len); compare_cookie(got, c, "c17:order"); });
    if (t.any) viol("c17:order:throw", "cookie '" + text.substr(0, 200) + "' rejected: " + t.type + ": " + t.what);
    std::string ord; for (auto& p : parts) ord += p.substr(0, 2);
    g_distinct.add("cord:" + ord);
    count("cookie_orders");
    end_case();
}
static void c17_jar(Rng& r) {
    int n = r.range(0, 8);
    std::vector<std::pair<std::string, std::string>> pairs;
    std::vector<std::string> names;
    for (int i = 0; i < 3; i++) names.push_back(rnd_token(r, 1, 6, CNAMECH));
    for (int i = 0; i < n; i++) {
        std::string nmv = r.chance(1, 2) ? r.pick(names) : rnd_token(r, 1, 8, CNAMECH);
        std::string v = r.chance(1, 6) ? "" : r.chance(1, 4) && !pairs.empty() ? pairs[r.below(pairs.size())].second : rnd_token(r, 1, 12, CVALCH);
        pairs.push_back({nmv, v});
    }
    std::string text;
    for (size_t i = 0; i < pairs.size(); i++) { if (i) { int sp = r.range(0, 9); text += sp <= 1 ? ";" : sp == 2 ? ";  " : sp == 3 ? ";\t" : sp == 4 ? "; \t " : "; "; } text += pairs[i].first + "=" + pairs[i].second; }
    std::set<std::pair<std::string, std::string>> want(pairs.begin(), pairs.end());
    bool repeatedNames = false; { std::set<std::string> s; for (auto& p : want) if (!s.insert(p.first).second) repeatedNames = true; }
    std::string cls = std::string(repeatedNames ? "repeated-names" : "distinct-names") + (want.size() != pairs.size() ? "+repeated-pairs" : "");
    BEGIN("jar", cls, text);
    Fence& f = fence_slot(); f.place(text.data(), text.size());
    Http::CookieJar jar;
    Thrown t = guarded([&] { jar.addFromRaw(f.ptr, f.len); });
    if (t.any) viol("c17:jar:throw:" + cls, "Cookie header '" + text.substr(0, 200) + "' rejected: " + t.what);
    else {
        std::multiset<std::pair<std::string, std::string>> seen;
        size_t steps = 0;
        Thrown t2 = guarded([&] { for (auto it = jar.begin(); it != jar.end() && steps < 1000; ++it, ++steps) seen.insert({it->name, it->value}); });
        if (t2.any) viol("c17:jar:iter-throw:" + cls, "iteration threw");
        std::multiset<std::pair<std::string, std::string>> wantm(want.begin(), want.end());
        if (seen != wantm) {
            std::string d = "iterated " + std::to_string(seen.size()) + " cookies, header has " + std::to_string(want.size()) + " distinct pairs";
            viol(std::string("c17:jar:") + (seen.size() > wantm.size() ? "extra" : seen.size() < wantm.size() ? "missing" : "different") + ":" + cls, d);
        }
        // post-increment iteration visits the same
        size_t steps2 = 0; for (auto it = jar.begin(); it != jar.end() && steps2 < 1000; it++) steps2++;
        if (steps2 != steps) viol("c17:jar:postinc:" + cls, "post-increment iteration visits a different number of cookies");
        for (auto& p : want) {
            if (!jar.has(p.first)) viol("c17:jar:has:" + cls, "has() false for a stored name");
            Thrown t3 = guarded([&] { Http::Cookie k = jar.get(p.first); if (k.name != p.first) throw std::logic_error("name"); bool ok = false; for (auto& q : want) if (q.first == p.first && q.second == k.value) ok = true; if (!ok) throw std::logic_error("value"); });
            if (t3.any) viol("c17:jar:get:" + cls, "get() wrong for a stored name: " + t3.what);
        }
        if (jar.has("\x01never")) viol("c17:jar:has-spurious:" + cls, "has() true for an absent name");
    }
    g_distinct.add("jar:" + cls + ":" + std::to_string(want.size()) + ":" + std::to_string(fnv(text) % 64));
    count("jar_header");
    end_case();
}
static void c17_jar_iter(Rng& r) {
    // jar filled through add(): iteration visits each stored cookie exactly once
    Http::CookieJar jar;
    std::set<std::pair<std::string, std::string>> want;
    int n = r.range(0, 12);
    std::vector<std::string> names; for (int i = 0; i < 3; i++) names.push_back(rnd_token(r, 1, 4, CNAMECH));
    for (int i = 0; i < n; i++) { CookieIntent c = gen_cookie(r); if (r.chance(2, 3)) c.name = r.pick(names); jar.add(build_cookie(c)); want.insert({c.name, c.value}); }
    BEGIN("jar-iter", "add", std::to_string(n));
    std::multiset<std::pair<std::string, std::string>> seen; size_t steps = 0;
    for (auto it = jar.begin(); it != jar.end() && steps < 1000; ++it, ++steps) seen.insert({(*it).name, (*it).value});
    std::multiset<std::pair<std::string, std::string>> wantm(want.begin(), want.end());
    if (seen != wantm) viol("c17:jar:iter-add", "iteration over a jar filled by add() visits " + std::to_string(seen.size()) + " of " + std::to_string(wantm.size()));
    // the same walk written with the post-increment idiom (use(*it++)) and through operator->
    { std::multiset<std::pair<std::string, std::string>> seen2; size_t st2 = 0; auto it = jar.begin();
      while (it != jar.end() && st2++ < 1000) { const Http::Cookie& ck = *it++; seen2.insert({ck.name, ck.value}); }
      if (seen2 != wantm) viol("c17:jar:iter-postfix", "a walk with *it++ over a jar filled by add() does not visit every stored cookie exactly once (" + std::to_string(seen2.size()) + " visits, " + std::to_string(std::set<std::pair<std::string, std::string>>(seen2.begin(), seen2.end()).size()) + " distinct cookies, " + std::to_string(wantm.size()) + " stored)");
      std::multiset<std::pair<std::string, std::string>> seen3; size_t st3 = 0;
      for (auto it3 = jar.begin(); it3 != jar.end() && st3 < 1000; ++it3, ++st3) seen3.insert({it3->name, it3->value});
      if (seen3 != wantm) viol("c17:jar:iter-arrow", "iteration through operator-> differs"); }
    jar.removeAllCookies();
    if (jar.begin() != jar.end()) viol("c17:jar:clear", "jar not empty after removeAllCookies");
    g_distinct.add("jit:" + std::to_string(want.size()) + ":" + std::to_string(n));
    count("jar_iter");
    end_case();
}
static void c17_malformed(Rng& r) {
    CookieIntent c = gen_cookie(r, -1, r.chance(1, 4));
    std::string text; { std::ostringstream os; os << build_cookie(c); text = os.str(); }
    text = mutate(r, text, ";= ,\0-9");
    bool viaJar = r.chance(1, 3);
    BEGIN(viaJar ? "jar-malformed" : "cookie-malformed", "mutant", text);
    Fence& f = fence_slot(); f.place(text.data(), text.size());
    Thrown t = guarded([&] { if (viaJar) { Http::CookieJar j; j.addFromRaw(f.ptr, f.len); } else (void)Http::Cookie::fromRaw(f.ptr, f.len); });
    // missing '=' in the name-value pair is malformed by any reading: must be rejected
    if (!t.any && !viaJar && text.find('=') == std::string::npos) viol("c17:malformed:accepted-no-equals", "cookie text without '=' accepted");
    count(t.any ? "cookie_mutant_rejected" : "cookie_mutant_accepted");
    g_distinct.add("cm:" + std::to_string(fnv(text) % 100000));
    end_case();
}
static void c17_directed(const std::string& text) {
    BEGIN("cookie-malformed", "directed", text);
    Fence& f = fence_slot(); f.place(text.data(), text.size());
    Thrown t = guarded([&] { (void)Http::Cookie::fromRaw(f.ptr, f.len); });
    count(t.any ? "cookie_mutant_rejected" : "cookie_mutant_accepted");
    end_case();
}
static void run_c17(long cases) {
    Rng& r = g_rng;
    if (g_opts.shard == 0) {  // directed probes: truncated / far-out-of-range dates, huge Max-Age, separators at the end
        for (const char* t : {"a=b; Expires=Thu, 07 Sep 2090", "a=b; Expires=Wed, 24 Nov 04 03:42:13 UTC", "a=b; Expires=Wed, 24 Nov 9999 03:42:13 GMT",
                              "a=b; Max-Age=99999999999999999999", "a=b; Max-Age=2147483648", "a=b; Max-Age=", "a=b;", "a=b; ", "a=b; Path", "a=b; Secure;", "=", "a=b; =; =", "a=b; Expires="})
            c17_directed(t);
        // Max-Age at the edge of int: values up to INT_MAX are read exactly, anything above is rejected (never wrapped)
        for (const char* t : {"0", "1", "214748364", "2147483639", "2147483640", "2147483645", "2147483646", "2147483647", "2147483648", "2147483649", "2147483650", "2147483657", "4294967295", "4294967296", "4294967297", "9223372036854775807", "9223372036854775808", "18446744073709551615", "18446744073709551616", "21474836470"}) {
            std::string text = std::string("a=b; Max-Age=") + t;
            BEGIN("cookie-maxage-edge", "directed", text);
            Fence& f = fence_slot(); f.place(text.data(), text.size());
            bool has = false; long got = -1;
            Thrown th = guarded([&] { auto c = Http::Cookie::fromRaw(f.ptr, f.len); has = c.maxAge.has_value(); if (has) got = *c.maxAge; });
            bool fits = strlen(t) < 10 || (strlen(t) == 10 && strcmp(t, "2147483647") <= 0);
            if (fits && (th.any || !has || got != atol(t))) viol("c17:max-age-edge:not-read-exactly", text + (th.any ? " rejected: " + th.what : " read as " + std::to_string(got)));
            if (!fits && !th.any) viol("c17:max-age-edge:accepted-above-int-max", text + " accepted, Max-Age read as " + (has ? std::to_string(got) : std::string("absent")));
            count("cookie_maxage_edge");
            end_case();
        }
    }
    for (int mask = g_opts.shard; mask < 128; mask += g_opts.nshards) for (int k = 0; k < 4; k++) c17_roundtrip(gen_cookie(r, mask));
    for (long i = 0; i < cases; i++) {
        int k = r.range(0, 9);
        if (k <= 2) c17_roundtrip(gen_cookie(r));
        else if (k == 3) c17_roundtrip(gen_cookie(r, 64 | (int)r.below(64), true));
        else if (k <= 5) c17_orders(r);
        else if (k <= 7) c17_jar(r);
        else if (k == 8) c17_jar_iter(r);
        else c17_malformed(r);
    }
}

// =====================================================================================
// C16 typed headers
template <class H> static std::string hwrite(const H& h) { std::ostringstream os; h.write(os); return os.str(); }
// Generic round trip: `make` builds the header from the intent, `same` compares accessors.
template <class H, class Same>
static void c16_rt(const std::string& name, const std::string& cls, const H& h1, Same same) {
    std::string s1;
    Thrown t0 = guarded([&] { s1 = hwrite(h1); });
    BEGIN("hdr-rt", name + ":" + cls, s1);
    std::string kb = "c16:rt:" + name + ":" + cls;
    if (t0.any) { viol(kb + ":write-throw", "write() threw " + t0.what); end_case(); return; }
    for (int via = 0; via < 2; via++) {
        H h2;
        Fence& f = fence_slot(); f.place(s1.data(), s1.size());
        Thrown t = guarded([&] { if (via == 0) h2.parseRaw(f.ptr, f.len); else h2.parse(s1); });
        std::string v = via == 0 ? "" : ":via-parse";
        if (t.any) { viol(kb + ":throw" + v, name + " text '" + s1.substr(0, 120) + "' written by the header is rejected: " + t.type + ": " + t.what); continue; }
        std::string why;
        if (!same(h1, h2, why)) viol(kb + ":accessor" + v, name + " parsed from '" + s1.substr(0, 120) + "' differs: " + why);
        std::string s2;
        Thrown t2 = guarded([&] { s2 = hwrite(h2); });
        if (t2.any || s2 != s1) viol(kb + ":rewrite" + v, name + " re-written text '" + s2.substr(0, 120) + "' != '" + s1.substr(0, 120) + "'");
    }
    g_distinct.add("h:" + name + ":" + cls + ":" + std::to_string(fnv(s1) % 64));
    count("hdr_roundtrip_" + name);
    maybe_sample("header", name + ": " + s1);
    end_case();
}
static std::string VALCH = "abcdefghijklmnopqrstuvwxyzABCDEFGHIJKLMNOPQRSTUVWXYZ0123456789-_.~:/?#[]@!$&'()*+,;=%";
static std::string rnd_value(Rng& r, int lo, int hi, bool spaces) {
    std::string s = rnd_token(r, lo, hi, VALCH.c_str());
    if (spaces) for (size_t i = 1; i + 1 < s.size(); i++) if (r.chance(1, 8)) s[i] = ' ';
    return s;
}
static void c16_typed(Rng& r) {
    using namespace Http::Header;
    int k = r.range(0, 16);
    switch (k) {
    case 0: {  // Cache-Control
        static const CacheDirective::Directive TRIV[] = {CacheDirective::NoCache, CacheDirective::NoStore, CacheDirective::NoTransform, CacheDirective::OnlyIfCached, CacheDirective::Public, CacheDirective::Private, CacheDirective::MustRevalidate, CacheDirective::ProxyRevalidate};
        static const CacheDirective::Directive TIMED[] = {CacheDirective::MaxAge, CacheDirective::MaxStale, CacheDirective::MinFresh, CacheDirective::SMaxAge};
        std::vector<CacheDirective> ds; int n = r.range(1, 4); bool zero = false, timed = false, timedLast = false, big = false;
        for (int i = 0; i < n; i++) {
            if (r.chance(1, 2)) { ds.emplace_back(r.pick(TRIV)); timedLast = false; }
            else { static const long long D[] = {0, 1, 59, 600, 2147483647LL, 2147483648LL, 2147483649LL, 4294967295LL, 4294967296LL, 31536000000LL, 4611686018427387904LL, 9223372036854775806LL, 9223372036854775807LL}; long long d = r.pick(D); if (r.chance(1, 4)) d = (long long)r.below(100000000); zero |= d == 0; big |= d > 2147483647LL; timed = true; timedLast = true; ds.emplace_back(r.pick(TIMED), std::chrono::seconds(d)); }
        }
        std::string cls = zero ? "delta0" : big ? "delta-above-2^31" : timed ? (timedLast ? "delta-at-end" : "delta") : "trivial";
        c16_rt<CacheControl>("Cache-Control", cls, CacheControl(ds), [](const CacheControl& a, const CacheControl& b, std::string& why) {
            auto x = a.directives(), y = b.directives();
            if (x.size() != y.size()) { why = "directive count " + std::to_string(y.size()) + " want " + std::to_string(x.size()); return false; }
            for (size_t i = 0; i < x.size(); i++) {
                if (x[i].directive() != y[i].directive()) { why = "directive " + std::to_string(i); return false; }
                bool t = false; long long da = 0, db = 0;
                try { da = x[i].delta().count(); t = true; } catch (...) {}
                if (t) { try { db = y[i].delta().count(); } catch (...) { why = "delta missing"; return false; } if (da != db) { why = "delta"; return false; } }
            }
            return true; });
        break; }
    case 1: { ConnectionControl c = r.pick(std::vector<ConnectionControl>{ConnectionControl::Close, ConnectionControl::KeepAlive, ConnectionControl::Ext});
        c16_rt<Connection>("Connection", std::to_string((int)c), Connection(c), [](const Connection& a, const Connection& b, std::string& why) { why = "control"; return a.control() == b.control(); }); break; }
    case 2: { Encoding e = (Encoding)r.range(0, 5);
        c16_rt<ContentEncoding>("Content-Encoding", encodingString(e), ContentEncoding(e), [](const ContentEncoding& a, const ContentEncoding& b, std::string& why) { why = "encoding"; return a.encoding() == b.encoding(); }); break; }
    case 3: { Encoding e = (Encoding)r.range(0, 5);
        c16_rt<TransferEncoding>("Transfer-Encoding", encodingString(e), TransferEncoding(e), [](const TransferEncoding& a, const TransferEncoding& b, std::string& why) { why = "encoding"; return a.encoding() == b.encoding(); }); break; }
    case 4: { static const uint64_t V[] = {0, 1, 9, 10, 4095, 4096, 4294967295ull, 4294967296ull, 4294967297ull, 9223372036854775807ull, 9223372036854775808ull, 9223372036854775809ull, 18446744073709551614ull, 18446744073709551615ull};
        uint64_t v = r.chance(1, 2) ? r.pick(V) : r.next() >> r.below(64);
        std::string cls = v == 0 ? "zero" : v > 9223372036854775807ull ? "above-2^63" : v > 4294967295ull ? "above-2^32" : "small";
        c16_rt<ContentLength>("Content-Length", cls, ContentLength(v), [](const ContentLength& a, const ContentLength& b, std::string& why) { why = "value " + std::to_string(b.value()); return a.value() == b.value(); }); break; }
    case 5: { MimeIntent m = gen_mime(r, false);
        std::string cls = m.params.empty() ? (m.q >= 0 ? "q" : "plain") : "params";
        c16_rt<ContentType>("Content-Type", cls, ContentType(build_mime(m)), [](const ContentType& a, const ContentType& b, std::string& why) {
            auto x = a.mime(), y = b.mime(); why = "mime parts";
            if (!(x == y)) return false;
            if (x.q().has_value() != y.q().has_value() || (x.q() && x.q()->value() != y.q()->value())) { why = "q"; return false; }
            return true; });
        break; }
    case 6: { int w = r.range(0, 2); std::string v = w == 0 ? "Basic " + ref_b64(rnd_token(r, 0, 12) + ":" + rnd_token(r, 0, 12)) : w == 1 ? "Bearer " + rnd_token(r, 1, 40) : rnd_value(r, 1, 40, true);
        c16_rt<Authorization>("Authorization", w == 0 ? "basic" : w == 1 ? "bearer" : "other", Authorization(v), [](const Authorization& a, const Authorization& b, std::string& why) { why = "value"; return a.value() == b.value() && a.getMethod() == b.getMethod(); }); break; }
    case 7: { int w = r.range(0, 6); long s = w == 6 ? (long)(r.range(1, 130) * 31556952L) + r.range(-4, 4) * 86400L + r.range(0, 86399) /* around a New Year */ : w == 0 ? 0 : w == 1 ? 951782400 + r.range(-2, 2) * 86400L + r.range(0, 86399) : w == 2 ? 2147483647L + r.range(-3, 3) : w == 3 ? 1709164800 /*2024-02-29*/ + r.range(0, 86399) : (long)r.below(4200000000ull);
        std::string cls = w == 6 ? "around-new-year" : w == 0 ? "epoch" : w == 1 ? "leap-2000" : w == 2 ? "y2038" : w == 3 ? "leap-2024" : "any";
        c16_rt<Date>("Date", cls, Date(FullDate(std::chrono::system_clock::time_point(std::chrono::seconds(s)))), [](const Date& a, const Date& b, std::string& why) { why = "time point"; return a.fullDate().date() == b.fullDate().date(); }); break; }
    case 8: { int w = r.range(0, 2); std::string h; std::string cls;
        if (w == 0) { h = rnd_token(r, 1, 10, "abcdefghijklmnopqrstuvwxyz0123456789-") + "." + rnd_token(r, 2, 3, "abcdefghijklmnopqrstuvwxyz"); cls = "name"; }
        else if (w == 1) { h = std::to_string(r.range(0, 255)) + "." + std::to_string(r.range(0, 255)) + "." + std::to_string(r.range(0, 255)) + "." + std::to_string(r.range(0, 255)); cls = "ipv4"; }
        else { unsigned char b[16]; for (auto& x : b) x = (unsigned char)r.below(256); if (r.chance(1, 3)) { memset(b, 0, 16); b[15] = 1; } h = "[" + v6text(b) + "]"; cls = "ipv6"; }
        int pw = r.range(0, 3); int port = pw == 0 ? 80 : pw == 1 ? 443 : pw == 2 ? 65535 : r.range(1, 65535);
        cls += port == 80 ? "-port80" : "-port";
        c16_rt<Host>("Host", cls, Host(h, Port((uint16_t)port)), [](const Host& a, const Host& b, std::string& why) { why = "host '" + b.host() + "' port " + std::to_string((uint16_t)b.port()); return a.host() == b.host() && (uint16_t)a.port() == (uint16_t)b.port(); });
        // "without port": the text form without a port reads as the default port and must round-trip from there
        BEGIN("hdr-rt", "Host:noport", h);
        Thrown t = guarded([&] { Host p; p.parse(h); if (p.host() != h || (uint16_t)p.port() != 80) throw std::logic_error("host/port"); Host q; q.parse(hwrite(p)); if (q.host() != p.host() || (uint16_t)q.port() != (uint16_t)p.port()) throw std::logic_error("reparse"); if (hwrite(q) != hwrite(p)) throw std::logic_error("rewrite"); });
        if (t.any) viol("c16:rt:Host:" + cls.substr(0, 4) + "-noport", "Host without port does not round-trip: " + t.what);
        end_case();
        break; }
    case 9: c16_rt<Location>("Location", "uri", Location("http://" + rnd_value(r, 1, 40, false)), [](const Location& a, const Location& b, std::string& why) { why = "location"; return a.location() == b.location(); }); break;
    case 10: { int n = r.range(1, 3); std::vector<std::string> toks; for (int i = 0; i < n; i++) toks.push_back(rnd_token(r, 1, 8) + "/" + std::to_string(r.range(0, 9)) + "." + std::to_string(r.range(0, 99)));
        c16_rt<Server>("Server", n == 1 ? "single-token" : "multi-token", Server(toks), [](const Server& a, const Server& b, std::string& why) { why = "tokens " + std::to_string(b.tokens().size()) + " want " + std::to_string(a.tokens().size()); return a.tokens() == b.tokens(); }); break; }
    case 11: c16_rt<UserAgent>("User-Agent", "text", UserAgent(rnd_value(r, 1, 60, true)), [](const UserAgent& a, const UserAgent& b, std::string& why) { why = "agent"; return a.agent() == b.agent(); }); break;
    case 12: c16_rt<AccessControlAllowOrigin>("Access-Control-Allow-Origin", "text", AccessControlAllowOrigin(r.chance(1, 4) ? "*" : "https://" + rnd_value(r, 1, 30, false)), [](const AccessControlAllowOrigin& a, const AccessControlAllowOrigin& b, std::string& why) { why = "uri"; return a.uri() == b.uri(); }); break;
    case 13: c16_rt<AccessControlAllowHeaders>("Access-Control-Allow-Headers", "text", AccessControlAllowHeaders(rnd_token(r, 1, 12) + ", " + rnd_token(r, 1, 12)), [](const AccessControlAllowHeaders& a, const AccessControlAllowHeaders& b, std::string& why) { why = "val"; return a.val() == b.val(); }); break;
    case 14: c16_rt<AccessControlExposeHeaders>("Access-Control-Expose-Headers", "text", AccessControlExposeHeaders(rnd_token(r, 1, 12) + ", " + rnd_token(r, 1, 12)), [](const AccessControlExposeHeaders& a, const AccessControlExposeHeaders& b, std::string& why) { why = "val"; return a.val() == b.val(); }); break;
    case 15: c16_rt<AccessControlAllowMethods>("Access-Control-Allow-Methods", "text", AccessControlAllowMethods(r.chance(1, 2) ? "GET, POST" : "PUT, DELETE, OPTIONS"), [](const AccessControlAllowMethods& a, const AccessControlAllowMethods& b, std::string& why) { why = "val"; return a.val() == b.val(); }); break;
    default: { Expectation e = r.chance(2, 3) ? Expectation::Continue : Expectation::Ext;
        c16_rt<Expect>("Expect", e == Expectation::Continue ? "continue" : "ext", Expect(e), [](const Expect& a, const Expect& b, std::string& why) { why = "expectation"; return a.expectation() == b.expectation(); }); break; }
    }
}
// Registered names with a valid value text for the message-level lookup check
static std::pair<std::string, std::string> registered_header(Rng& r) {
    switch (r.range(0, 9)) {
    case 0: return {"Content-Type", "text/plain"};
    case 1: return {"Host", "example.com:" + std::to_string(r.range(1, 65535))};
    case 2: return {"User-Agent", rnd_value(r, 1, 20, true)};
    case 3: return {"Connection", r.chance(1, 2) ? "keep-alive" : "close"};
    case 4: return {"Cache-Control", r.chance(1, 2) ? "no-cache" : "max-age=" + std::to_string(r.range(1, 9999)) + ", public"};
    case 5: return {"Location", "/" + rnd_token(r, 1, 10)};
    case 6: return {"Authorization", "Bearer " + rnd_token(r, 1, 20)};
    case 7: return {"Server", rnd_token(r, 1, 10)};
    case 8: return {"Access-Control-Allow-Origin", "*"};
    default: return {"Content-Encoding", r.chance(1, 2) ? "gzip" : "deflate"};
    }
}
static void c16_lookup(Rng& r) {
    // A parsed message: every header retrievable under any capitalisation, first occurrence wins.
    struct Hd { std::string name, value; bool registered; };
    std::vector<Hd> hs;
    int n = r.range(1, 7);
    for (int i = 0; i < n; i++) {
        Hd h;
        if (r.chance(1, 3)) { auto p = registered_header(r); h.name = p.first; h.value = p.second; h.registered = true; }
        else if (r.chance(1, 6)) {   // headers with a dedicated branch in the header step: the raw copy must exist all the same
            if (r.chance(1, 2)) { h.name = "Cookie"; h.value = "a" + rnd_token(r, 1, 5, "abcdefghij") + "=" + rnd_token(r, 1, 8, "abcdefghij0123456789") + "; b=2"; }
            else { h.name = "Set-Cookie"; h.value = "s" + rnd_token(r, 1, 5, "abcdefghij") + "=" + rnd_token(r, 1, 8, "abcdefghij0123456789") + "; Path=/"; }
            h.registered = false;
        }
        else {
            h.name = "X-" + rnd_token(r, 1, r.chance(1, 4) ? 70 : 10, "abcdefghijklmnopqrstuvwxyzABCDEFGHIJKLMNOPQRSTUVWXYZ0123456789-_");
            int len = r.range(0, 30);
            for (int k = 0; k < len; k++) { char c = (char)r.below(256); if (c == '\n' || c == '\r') c = r.chance(1, 2) ? '\t' : 'x'; h.value += c; }
            // no leading/trailing blanks: optional whitespace around a value is not "value bytes"
            while (!h.value.empty() && (h.value.front() == ' ' || h.value.front() == '\t')) h.value.erase(0, 1);
            while (!h.value.empty() && (h.value.back() == ' ' || h.value.back() == '\t')) h.value.pop_back();
            h.registered = false;
        }
        hs.push_back(h);
        if (r.chance(1, 4)) {  // a later occurrence under another capitalisation with another value
            Hd d = h; d.name = rnd_case(r, h.name);
            if (h.registered) { for (int tries = 0; tries < 5; tries++) { auto p = registered_header(r); if (p.first == h.name) { d.value = p.second; break; } } }
            else if (h.name == "Cookie" || h.name == "Set-Cookie") d.value = "dup=" + rnd_token(r, 1, 6, "abcdefghij");
            else d.value = "dup" + rnd_token(r, 0, 6);
            hs.push_back(d);
        }
    }
    bool asResponse = r.chance(1, 3);
    std::string msg = asResponse ? "HTTP/1.1 200 OK\r\n" : "GET /x HTTP/1.1\r\n";
    for (auto& h : hs) msg += (r.chance(1, 3) ? rnd_case(r, h.name) : h.name) + (r.chance(1, 4) ? ":" : ": ") + h.value + "\r\n";
    if (asResponse) msg += "Content-Length: 0\r\n";
    msg += "\r\n";
    BEGIN("lookup", asResponse ? "response" : "request", msg);
    Rng lr(fnv(msg));   // in-case randomness must not disturb the generator stream (resume after a crash)
    Http::RequestParser parser(1 << 16);
    Http::ResponseParser rparser(1 << 16);
    Http::Private::State st = Http::Private::State::Again;
    Thrown t = guarded([&] { if (asResponse) { rparser.feed(msg.data(), msg.size()); st = rparser.parse(); } else { parser.feed(msg.data(), msg.size()); st = parser.parse(); } });
    if (t.any || st != Http::Private::State::Done) { viol("c16:lookup:parse", std::string("message with plain headers did not parse: ") + t.what); end_case(); return; }
    const auto& coll = asResponse ? rparser.response.headers() : parser.request.headers();
    std::map<std::string, const Hd*> first;
    for (auto& h : hs) { std::string l = Http::Header::toLowercase(h.name); if (!first.count(l)) first[l] = &h; }
    for (auto& kv : first) {
        const Hd& h = *kv.second;
        // capitalisations: all 2^k for k<=10 letters, else 64 samples
        std::vector<size_t> letters; for (size_t i = 0; i < h.name.size(); i++) if (isalpha((unsigned char)h.name[i])) letters.push_back(i);
        size_t capAll = g_opts.mode == "thorough" ? 10 : 6;
        size_t total = letters.size() <= capAll ? (1u << letters.size()) : 64;
        for (size_t v = 0; v < total; v++) {
            std::string nm = h.name;
            uint64_t bits = letters.size() <= capAll ? v : lr.next();
            for (size_t b = 0; b < letters.size(); b++) nm[letters[b]] = (char)(((bits >> (b % 64)) & 1) ? toupper(nm[letters[b]]) : tolower(nm[letters[b]]));
            auto raw = coll.tryGetRaw(nm);
            std::string hk = h.registered ? "registered" : "unknown";
            if (!raw) { viol("c16:lookup:" + hk + ":raw-missing", "tryGetRaw('" + nm + "') finds nothing"); break; }
            if (raw->value() != h.value) { viol("c16:lookup:" + hk + ":raw-value", "tryGetRaw('" + nm + "') value differs from the first occurrence"); break; }
            // the throwing getters are the same look-up
            { std::string gv; bool threw = false; try { gv = coll.getRaw(nm).value(); } catch (const std::exception&) { threw = true; }
              if (threw) { viol("c16:lookup:" + hk + ":getRaw-throws", "getRaw('" + nm + "') throws although the header is there"); break; }
              if (gv != h.value) { viol("c16:lookup:" + hk + ":getRaw-value", "getRaw('" + nm + "') value differs from the first occurrence"); break; } }
            if (h.registered) {
                if (!coll.has(nm)) { viol("c16:lookup:registered:has", "has('" + nm + "') false"); break; }
                auto th = coll.tryGet(nm);
                if (!th) { viol("c16:lookup:registered:typed-missing", "tryGet('" + nm + "') null"); break; }
                std::ostringstream a; th->write(a);
                auto fresh = Http::Header::Registry::instance().makeHeader(h.name);
                fresh->parse(h.value);
                std::ostringstream b; fresh->write(b);
                if (a.str() != b.str()) { viol("c16:lookup:registered:typed-value", "typed '" + nm + "' is not the first occurrence"); break; }
                { std::string gt; bool threw = false; try { auto g = coll.get(nm); std::ostringstream c; g->write(c); gt = c.str(); } catch (const std::exception&) { threw = true; }
                  if (threw || gt != b.str()) { viol(std::string("c16:lookup:registered:get-") + (threw ? "throws" : "value"), "get('" + nm + "') " + (threw ? "throws" : "is not the first occurrence")); break; } }
            } else if (coll.has(nm)) { /* has() covers typed headers only: fine either way */ }
            g_evals++;
        }
    }
    if (coll.tryGetRaw("X-Never-Sent-Header")) viol("c16:lookup:spurious", "absent header found");
    { bool threw = false; try { (void)coll.getRaw("X-Never-Sent-Header"); } catch (const std::exception&) { threw = true; } if (!threw) viol("c16:lookup:spurious", "getRaw of an absent header does not throw"); }
    // the lists hold each distinct name once, with the value of its first occurrence
    { std::map<std::string, std::string> seenRaw; bool dup = false; for (auto& rw : coll.rawList()) { std::string l = Http::Header::toLowercase(rw.second.name()); if (seenRaw.count(l)) dup = true; seenRaw[l] = rw.second.value(); }
      if (dup) viol("c16:lookup:rawlist-duplicate", "rawList() holds one name twice");
      for (auto& kv : first) { auto it = seenRaw.find(kv.first); if (it == seenRaw.end()) { viol("c16:lookup:rawlist-missing", "rawList() lacks '" + kv.second->name + "'"); break; } if (it->second != kv.second->value) { viol("c16:lookup:rawlist-value", "rawList() value of '" + kv.second->name + "' is not the first occurrence"); break; } }
      size_t extra = asResponse ? 1 : 0; if (seenRaw.size() != first.size() + (first.count("content-length") ? 0 : extra)) viol("c16:lookup:rawlist-size", "rawList() has " + std::to_string(seenRaw.size()) + " names, the message " + std::to_string(first.size() + extra)); }
    g_distinct.add("lk:" + std::to_string(hs.size()) + ":" + std::to_string(first.size()) + ":" + std::to_string(fnv(msg) % 4096));
    count("lookup_messages");
    maybe_sample("lookup-message", msg.substr(0, 300));
    end_case();
}
// the first thing a thread does with the library: a value written by a thread that has not touched the writers before (lazily initialised
// per-thread state starts from its defaults there) must read back like any other
static void c16_first_on_a_fresh_thread(Rng& r) {
    static const long long FIRST[] = {0, 0, 1, 86399, 86400, 951782400LL, 2147483647LL, 4102444800LL};
    long long sec = r.chance(1, 2) ? r.pick(FIRST) : (long long)r.below(4102444800ull);
    int what = r.range(0, 2);   // 0 Date header, 1 default-constructed Date header (epoch), 2 Cache-Control with a delta
    BEGIN("first-on-thread", what == 0 ? "date" : what == 1 ? "default-date" : "cache-control", std::to_string(sec));
    std::string text, err; long long back = -1;
    std::thread th([&] { try {
        if (what == 2) { Http::Header::CacheControl cc(Http::CacheDirective(Http::CacheDirective::MaxAge, std::chrono::seconds(sec % 2147483647LL))); std::ostringstream os; cc.write(os); text = os.str();
            Http::Header::CacheControl c2; c2.parse(text); std::ostringstream o2; c2.write(o2); back = o2.str() == text ? (sec % 2147483647LL) : -2; }
        else { Http::Header::Date d = what == 1 ? Http::Header::Date() : Http::Header::Date(Http::FullDate(std::chrono::system_clock::time_point(std::chrono::seconds(sec)))); std::ostringstream os; d.write(os); text = os.str();
            Http::Header::Date d2; d2.parse(text); back = (long long)std::chrono::duration_cast<std::chrono::seconds>(d2.fullDate().date().time_since_epoch()).count(); }
    } catch (const std::exception& e) { err = e.what(); } });
    th.join();
    long long want = what == 1 ? 0 : what == 2 ? (sec % 2147483647LL) : sec;
    if (!err.empty()) viol(std::string("c16:rt:first-on-a-fresh-thread:") + (what == 2 ? "Cache-Control" : "Date") + ":throw", "the first header a thread writes ('" + text + "') does not read back: " + err);
    else if (back != want) viol(std::string("c16:rt:first-on-a-fresh-thread:") + (what == 2 ? "Cache-Control" : "Date") + ":value", "the first header a thread writes ('" + text + "') reads back as another value");
    g_distinct.add("fresh:" + std::to_string(what) + ":" + std::to_string(sec % 512));
    count("first_value_on_a_fresh_thread");
    end_case();
}
static void run_c16(long cases) {
    Rng& r = g_rng;
    for (int k = 0; k < 40; k++) c16_first_on_a_fresh_thread(r);
    for (long i = 0; i < cases; i++) {
        if (r.chance(5, 6)) c16_typed(r); else c16_lookup(r);
    }
}

static bool g_finished = false;
static void finish_output(bool died) {
    if (g_finished) return;
    g_finished = true;
    g_distinct.flush();
    Json s; s.str("t", died ? "partial" : "sum").num("evaluations", g_evals - g_skip_until > 0 ? g_evals - g_skip_until : 0).num("san_reports", g_san_reports);
    Json c; for (auto& kv : g_counts) c.num(kv.first, kv.second);
    s.raw("counts", c.done());
    emit(s.done());
}
#if defined(__SANITIZE_ADDRESS__)
extern "C" void __sanitizer_set_death_callback(void (*)(void));
static void on_death() { finish_output(true); }
#endif

int main(int argc, char** argv) {
    g_opts = parse_opts(argc, argv);
#if defined(__SANITIZE_ADDRESS__)
    __sanitizer_set_death_callback(on_death);
#endif
    g_rng = Rng(g_opts.seed * 1000003ull + (uint64_t)g_opts.shard);
    install_handlers();
    g_cpu.init();
    std::string prop = g_opts.get("prop", "c20");
    g_skip_until = g_opts.num("skip", 0);
    if (!g_opts.replay.empty()) {
        // replay: the witness's text is parsed again by every parser of the property
        fprintf(stderr, "replay: run the property with the recorded seed/shard; case text is in the witness file\n");
    }
    if (prop == "c16") run_c16(g_opts.cases);
    else if (prop == "c17") run_c17(g_opts.cases);
    else if (prop == "c18") run_c18(g_opts.cases);
    else if (prop == "c19") run_c19(g_opts.cases);
    else if (prop == "c20") run_c20(g_opts.cases);
    finish_output(false);
    return 0;
}
