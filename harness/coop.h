// Cooperative scheduler for the PISTACHE_VERIF hooks: real threads, real code, one runnable at a
// time.  Every hook hands the baton to the scheduler, which picks the next thread from a seeded
// strategy (uniform random walk or PCT-style priorities with d change points).  std::mutex
// acquisitions announced through the lock hook are modelled (a thread is parked while the modelled
// owner holds the lock), so the real mutex never blocks.  Blocking waits (epoll on an eventfd) are
// modelled with predicates.  The schedule taken is recorded as (thread, site) pairs.
#pragma once
#include "common.h"
#include <pistache/verif_hooks.h>
#include <condition_variable>
#include <mutex>
#include <thread>
#include <functional>
#include <map>

namespace coop {

enum TState { RUNNABLE = 0, LOCKWAIT = 1, PREDWAIT = 2, DONE = 3, NOTSTARTED = 4 };

struct Sched {
    std::mutex m;
    std::condition_variable cv;
    int n = 0;
    int current = -1;
    std::vector<int> state;
    std::vector<const void*> waitLock;
    std::vector<std::function<bool()>> pred;
    std::map<const void*, int> owner;
    vf::Rng rng{1};
    std::vector<uint16_t> trace;
    long steps = 0, maxSteps = 20000;
    bool stuck = false;       // nobody can run although somebody is not done
    bool overrun = false;     // step bound exceeded: inconclusive
    bool freeRun = false;     // hooks become no-ops (after stuck/overrun) so that threads can finish
    int strategy = 0;         // 0 random walk, 1 PCT, 2 systematic (depth-first over the choices, bounded number of preemptions)
    // systematic mode: the choice taken at every scheduling point (index into the candidates, the thread that ran last first) and the
    // number of candidates there; dfsPrefix prescribes the first choices of this run, beyond it the first candidate is taken
    std::vector<int> dfsPrefix; std::vector<std::pair<int, int>> dfsTaken; int preemptBound = 2, preemptions = 0; bool dfsDiverged = false;
    std::vector<int> prio;
    std::vector<long> changePoints;
    int lastRan = -1;

    void reset(int nthreads, uint64_t seed, int strat, int pctDepth, long expectedLen) {
        n = nthreads; current = -1; state.assign(n, NOTSTARTED); waitLock.assign(n, nullptr); pred.assign(n, nullptr);
        owner.clear(); rng = vf::Rng(seed); trace.clear(); steps = 0; stuck = overrun = freeRun = false; strategy = strat;
        prio.resize(n); for (int i = 0; i < n; i++) prio[i] = i + pctDepth + 1;
        for (int i = n - 1; i > 0; i--) std::swap(prio[i], prio[rng.below((uint64_t)i + 1)]);
        changePoints.clear(); for (int k = 0; k < pctDepth; k++) changePoints.push_back(1 + (long)rng.below((uint64_t)std::max<long>(1, expectedLen)));
        lastRan = -1; dfsTaken.clear(); preemptions = 0; dfsDiverged = false;
    }
    // after a systematic run: the prefix of the next unexplored schedule (false when the tree is exhausted)
    bool next_prefix(std::vector<int>& out) const {
        for (size_t i = dfsTaken.size(); i-- > 0;) if (dfsTaken[i].first + 1 < dfsTaken[i].second) { out.clear(); for (size_t k = 0; k < i; k++) out.push_back(dfsTaken[k].first); out.push_back(dfsTaken[i].first + 1); return true; }
        return false;
    }
    bool enabled(int t) {
        switch (state[t]) {
        case RUNNABLE: return true;
        case LOCKWAIT: { auto it = owner.find(waitLock[t]); return it == owner.end(); }
        case PREDWAIT: return pred[t] ? pred[t]() : true;
        default: return false;
        }
    }
    // returns -1 when nobody can run
    int choose() {
        std::vector<int> en;
        for (int t = 0; t < n; t++) if (enabled(t)) en.push_back(t);
        if (en.empty()) return -1;
        if (strategy == 0) return en[rng.below(en.size())];
        if (strategy == 2) {
            bool lastOn = lastRan >= 0 && enabled(lastRan);
            std::vector<int> ord; if (lastOn) ord.push_back(lastRan); for (int t : en) if (!(lastOn && t == lastRan)) ord.push_back(t);
            size_t cnt = (lastOn && preemptions >= preemptBound) ? 1 : ord.size();
            size_t k = dfsTaken.size(); size_t idx = k < dfsPrefix.size() ? (size_t)dfsPrefix[k] : 0;
            if (idx >= cnt) { dfsDiverged = true; idx = 0; }       // the run did not repeat its prefix: not deterministic, reported
            if (lastOn && idx != 0) preemptions++;
            dfsTaken.push_back({(int)idx, (int)cnt});
            return ord[idx];
        }
        // PCT: at a change point the thread that ran last drops to the lowest priority
        for (size_t k = 0; k < changePoints.size(); k++) if (changePoints[k] == steps && lastRan >= 0) prio[lastRan] = (int)(changePoints.size() - k);
        int best = en[0]; for (int t : en) if (prio[t] > prio[best]) best = t;
        return best;
    }
};

inline Sched* g = nullptr;
inline thread_local int tl_id = -1;

// must be called with g->m held by lk; hands over and waits for the baton to come back
inline void switch_from(std::unique_lock<std::mutex>& lk, int self) {
    Sched& s = *g;
    int next = s.choose();
    if (next < 0) {
        bool allDone = true; for (int t = 0; t < s.n; t++) if (s.state[t] != DONE) allDone = false;
        if (!allDone) { s.stuck = true; s.freeRun = true; }
        s.current = -2;
        s.cv.notify_all();
        return;
    }
    s.lastRan = next;
    s.current = next;
    if (next != self) {
        s.cv.notify_all();
        if (self >= 0 && s.state[self] != DONE) s.cv.wait(lk, [&] { return s.current == self || s.freeRun; });
    }
}
inline void yield_hook(int site, const void*) {
    Sched* sp = g; if (!sp || tl_id < 0) return;
    Sched& s = *sp;
    std::unique_lock<std::mutex> lk(s.m);
    if (s.freeRun) return;
    s.trace.push_back((uint16_t)((tl_id << 8) | (site & 0xff)));
    if (++s.steps > s.maxSteps) { s.overrun = true; s.freeRun = true; s.cv.notify_all(); return; }
    switch_from(lk, tl_id);
}
inline void lock_hook(const void* mtx, int acquire) {
    Sched* sp = g; if (!sp || tl_id < 0) return;
    Sched& s = *sp;
    std::unique_lock<std::mutex> lk(s.m);
    if (s.freeRun) return;
    int self = tl_id;
    if (acquire) {
        s.trace.push_back((uint16_t)((self << 8) | 100));
        s.steps++;
        for (;;) {
            auto it = s.owner.find(mtx);
            if (it == s.owner.end()) break;
            s.state[self] = LOCKWAIT; s.waitLock[self] = mtx;
            switch_from(lk, self);
            if (s.freeRun) { s.state[self] = RUNNABLE; return; }
        }
        s.owner[mtx] = self;
        s.state[self] = RUNNABLE;
    } else {
        auto it = s.owner.find(mtx);
        if (it != s.owner.end() && it->second == self) s.owner.erase(it);
        s.trace.push_back((uint16_t)((self << 8) | 101));
        s.steps++;
        switch_from(lk, self);
    }
}
// models a blocking wait (e.g. epoll_wait on an eventfd): returns true when the predicate held,
// false when the schedule got stuck (nobody else can make it true any more)
inline bool wait_until(std::function<bool()> p, int site) {
    Sched& s = *g;
    std::unique_lock<std::mutex> lk(s.m);
    int self = tl_id;
    if (s.freeRun) return p();
    s.trace.push_back((uint16_t)((self << 8) | (site & 0xff)));
    s.steps++;
    s.state[self] = PREDWAIT; s.pred[self] = p;
    switch_from(lk, self);
    s.state[self] = RUNNABLE; s.pred[self] = nullptr;
    if (s.freeRun) return p();
    return true;
}
inline void thread_begin(int id) {
    tl_id = id;
    Sched& s = *g;
    std::unique_lock<std::mutex> lk(s.m);
    s.state[id] = RUNNABLE;
    s.cv.notify_all();
    s.cv.wait(lk, [&] { return s.current == id || s.freeRun; });
}
inline void thread_end() {
    Sched& s = *g;
    std::unique_lock<std::mutex> lk(s.m);
    int self = tl_id;
    s.state[self] = DONE;
    if (!s.freeRun) switch_from(lk, self);
    tl_id = -1;
}
// run the bodies under the scheduler; returns when all threads have finished
inline void run(Sched& s, const std::vector<std::function<void()>>& bodies) {
    g = &s;
    Pistache::Verif::g_yield = yield_hook;
    Pistache::Verif::g_lock = lock_hook;
    std::vector<std::thread> th;
    for (size_t i = 0; i < bodies.size(); i++) th.emplace_back([&, i] { thread_begin((int)i); bodies[i](); thread_end(); });
    {
        std::unique_lock<std::mutex> lk(s.m);
        s.cv.wait(lk, [&] { for (int t = 0; t < s.n; t++) if (s.state[t] == NOTSTARTED) return false; return true; });
        switch_from(lk, -1);
    }
    for (auto& t : th) t.join();
    Pistache::Verif::g_yield = nullptr;
    Pistache::Verif::g_lock = nullptr;
    g = nullptr;
}
inline std::string trace_text(const Sched& s, size_t maxn = 400) {
    std::string o;
    for (size_t i = 0; i < s.trace.size() && i < maxn; i++) { o += "T" + std::to_string(s.trace[i] >> 8) + ":" + std::to_string(s.trace[i] & 0xff) + " "; }
    return o;
}
inline uint64_t trace_hash(const Sched& s) { return vf::fnv(s.trace.data(), s.trace.size() * sizeof(uint16_t)); }

}  // namespace coop
