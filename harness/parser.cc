// Parser-level monitors:
//   c01  segmentation independence (differential: whole delivery vs every single cut, bytewise, sampled multi-cuts)
//   c04  successive messages on one parser vs a fresh parser (complete or abandoned predecessors)
//   c03  hostile inputs: mutated / garbage messages in arbitrary segmentation + every value parser from
//        guard-page buffers; sanitizers (asan flavour), CPU-time budget, allocation monitor (plain flavour)
#include "common.h"
#include "msggen.h"

#include <pistache/base64.h>
#include <pistache/http.h>
#include <pistache/http_headers.h>
#include <pistache/net.h>
#include <atomic>
#include <new>

using namespace Pistache;
using namespace vf;
using mg::Msg;
using PState = Http::Private::State;

static Opts g_opts;
static Distinct g_distinct;
static long g_evals = 0;
static std::map<std::string, long> g_counts;
static CpuBudget g_cpu;
static long g_samples_left = 6;
static long g_skip_until = -1;
static std::set<std::string> g_cutclasses;
static void count(const std::string& k, long n = 1) { g_counts[k] += n; }

// ---------------------------------------------------------------- allocation monitor (plain flavour)
#if !defined(__SANITIZE_ADDRESS__) && !defined(__SANITIZE_THREAD__)
#define HAVE_ALLOCMON 1
static std::atomic<bool> g_mon{false};
static std::atomic<size_t> g_live{0}, g_peak{0}, g_largest{0};
static void* mon_alloc(size_t n) {
    size_t* p = (size_t*)malloc(n + 16);
    if (!p) throw std::bad_alloc();
    p[0] = n; p[1] = 0x5ca1ab1e;
    if (g_mon.load(std::memory_order_relaxed)) {
        size_t l = g_live.fetch_add(n) + n;
        size_t pk = g_peak.load(); while (l > pk && !g_peak.compare_exchange_weak(pk, l)) {}
        size_t lg = g_largest.load(); while (n > lg && !g_largest.compare_exchange_weak(lg, n)) {}
    }
    return p + 2;
}
static void mon_free(void* q) {
    if (!q) return;
    size_t* p = (size_t*)q - 2;
    if (g_mon.load(std::memory_order_relaxed)) { size_t n = p[0]; size_t l = g_live.load(); g_live.store(l >= n ? l - n : 0); }
    free(p);
}
void* operator new(size_t n) { return mon_alloc(n); }
void* operator new[](size_t n) { return mon_alloc(n); }
void operator delete(void* p) noexcept { mon_free(p); }
void operator delete[](void* p) noexcept { mon_free(p); }
void operator delete(void* p, size_t) noexcept { mon_free(p); }
void operator delete[](void* p, size_t) noexcept { mon_free(p); }
struct MonScope {
    MonScope() { g_live = 0; g_peak = 0; g_largest = 0; g_mon = true; }
    ~MonScope() { g_mon = false; }
};
#else
#define HAVE_ALLOCMON 0
struct MonScope { };
static std::atomic<size_t> g_peak{0}, g_largest{0};
#endif

// ---------------------------------------------------------------- outcomes
struct Outcome {
    int kind = 0;  // 0 Again, 1 Done, 2 Error
    int code = 0;
    std::string etype, ewhat, snapshot;
    size_t piece = 0;   // piece index at which Done/Error happened
    bool operator==(const Outcome& o) const { return kind == o.kind && (kind != 2 || code == o.code) && (kind != 1 || snapshot == o.snapshot); }
    std::string brief() const { return kind == 0 ? "Again" : kind == 1 ? "Done" : "Error " + std::to_string(code) + " (" + etype + ": " + ewhat + ")"; }
};
template <class P> struct MsgOf;
template <> struct MsgOf<Http::RequestParser> { static const Http::Request& get(Http::RequestParser& p) { return p.request; } };
template <> struct MsgOf<Http::ResponseParser> { static const Http::Response& get(Http::ResponseParser& p) { return p.response; } };

// Feed one piece and parse; returns true when the message is finished (Done or Error) for this parser.
template <class P> static bool step(P& parser, const char* data, size_t len, Outcome& out, size_t pieceIdx) {
    try {
        if (!parser.feed(data, len)) { out.kind = 2; out.code = 413; out.etype = "feed"; out.ewhat = "limit"; out.piece = pieceIdx; return true; }
        PState st = parser.parse();
        if (st == PState::Done) { out.kind = 1; out.snapshot = mg::snap(MsgOf<P>::get(parser)); out.piece = pieceIdx; return true; }
        out.kind = 0;
        return false;
    } catch (const Http::HttpError& e) { out.kind = 2; out.code = e.code(); out.etype = "HttpError"; out.ewhat = e.what(); }
    catch (const std::bad_alloc& e) { out.kind = 2; out.code = 500; out.etype = "bad_alloc"; out.ewhat = e.what(); }
    catch (const std::length_error& e) { out.kind = 2; out.code = 500; out.etype = "length_error"; out.ewhat = e.what(); }
    catch (const std::exception& e) { out.kind = 2; out.code = 500; out.etype = "exception"; out.ewhat = e.what(); }
    out.piece = pieceIdx;
    return true;
}
// Deliver `bytes` cut at `cuts` (ascending offsets, exclusive of 0 and n) to a parser.
// Returns the final outcome; `early` is set when Done/Error happened before the last piece.
template <class P> static Outcome deliver(P& parser, const std::string& bytes, const std::vector<size_t>& cuts, bool& early) {
    Outcome out;
    early = false;
    size_t pos = 0, npieces = cuts.size() + 1;
    for (size_t i = 0; i < npieces; i++) {
        size_t end = i < cuts.size() ? cuts[i] : bytes.size();
        bool fin = step(parser, bytes.data() + pos, end - pos, out, i);
        pos = end;
        if (fin) { early = i + 1 < npieces; return out; }
    }
    return out;
}

static const size_t BIGMAX = 1 << 16;

static std::string cuts_json(const std::vector<size_t>& c) { return jnums(c); }
static std::string case_json(long idx, const Msg& m, const std::vector<size_t>& cuts, const std::string& cutclass, const char* phase) {
    return Json().num("i", idx).str("phase", phase).str("kind", m.response ? "resp" : "req").str("shape", m.shape).str("cutclass", cutclass)
        .raw("cuts", cuts_json(cuts)).num("len", (long long)m.bytes.size()).str("hex", hex(m.bytes.size() <= 6000 ? m.bytes : m.bytes.substr(0, 6000))).done();
}

// ---------------------------------------------------------------- C01
template <class P> static std::string judge(const Outcome& ref, const Outcome& got, bool early) {
    // returns "" when the segmented delivery agrees with whole delivery, else the symptom
    if (ref.kind == 1) {
        if (got.kind == 1 && early) return "early-done";
        if (got.kind == 2) return early ? "early-error" : "error-at-end";
        if (got.kind == 0) return "not-done-at-end";
        if (got.snapshot != ref.snapshot) return "message-differs";
        return "";
    }
    if (ref.kind == 2) {
        if (got.kind == 1) return "done-instead-of-error";
        if (got.kind == 0) return "error-missing";
        if (got.code != ref.code) return "error-status-differs";
        return "";
    }
    if (got.kind == 1) return "done-instead-of-again";
    if (got.kind == 2) return "error-instead-of-again";
    return "";
}
template <class P> static void c01_message(long idx, const Msg& m) {
    const std::string& b = m.bytes;
    const size_t n = b.size();
    std::string kind = m.response ? "resp" : "req";
    set_case(idx, case_json(idx, m, {}, "whole", "c01"));
    g_cpu.arm(2.0);
    Outcome ref;
    // the parser's size limit: far away for two messages in three, otherwise close to the message (exactly its size, one more, a little
    // more, just under twice its size, the next power of two, the default 4096): a message within the limit has to be accepted however
    // it is cut - how the receive buffer grows towards the limit must not depend on the segmentation
    size_t maxsz = BIGMAX;
    { Rng lr(g_opts.seed * 104729 + (uint64_t)idx * 31); int w = (int)lr.below(18); size_t p2 = 1; while (p2 < n) p2 <<= 1;
      if (n >= 16 && w < 6) { maxsz = w == 0 ? n : w == 1 ? n + 1 : w == 2 ? n + 37 : w == 3 ? 2 * n - 1 : w == 4 ? p2 : (n <= 4096 ? 4096 : n + 5); count("messages_with_a_limit_close_to_their_size"); } }
    { P p(maxsz); bool e; ref = deliver(p, b, {}, e); }
    g_cpu.disarm();
    g_evals++;
    count("ref_" + std::string(ref.kind == 0 ? "again" : ref.kind == 1 ? "done" : "error"));
    if (m.wellformed && ref.kind != 1)
        violation("c01:" + kind + ":whole-not-done:" + m.shape, "a well-formed message delivered whole is not reported complete: " + ref.brief(), g_case);
    if (g_samples_left > 0 && (idx % 37) == 5) { g_samples_left--; sample(Json().str("shape", m.shape).num("len", (long long)n).str("whole_outcome", ref.brief()).str("text", b.substr(0, 300)).done()); }
    std::set<std::string> reported;
    auto run = [&](const std::vector<size_t>& cuts, const char* what) {
        std::string cc = m.cutClass(cuts.empty() ? 0 : cuts[0]);
        std::string allcc = cc;
        if (cuts.size() > 1) { allcc = "multi"; }
        set_case(idx, case_json(idx, m, cuts, cuts.size() == 1 ? cc : std::string(what), "c01"));
        g_cpu.arm(2.0);
        P p(maxsz);
        bool early;
        Outcome got = deliver(p, b, cuts, early);
        g_cpu.disarm();
        g_evals++;
        std::string sym = judge<P>(ref, got, early);
        if (sym.empty()) return true;
        std::string where;
        if (cuts.size() == 1) where = cc;
        else {
            // attribute to the cut after which things went wrong
            size_t pi = got.piece < cuts.size() ? got.piece : cuts.size() - 1;
            where = std::string(what) + ":" + m.cutClass(cuts[pi]);
        }
        std::string key = "c01:" + kind + ":" + sym + ":" + where;
        if (reported.insert(key).second)
            violation(key, std::string(maxsz != BIGMAX ? "(size limit " + std::to_string(maxsz) + ", message " + std::to_string(n) + " bytes) " : "") + "delivered in " + std::to_string(cuts.size() + 1) + " pieces: " + got.brief() + (early ? " before the last piece" : "") + "; whole delivery: " + ref.brief(), g_case);
        return false;
    };
    // every single cut
    for (size_t c = 1; c < n; c++) {
        run({c}, "single");
        std::string cc = m.cutClass(c);
        g_cutclasses.insert(cc);
        g_distinct.add(m.shape + "#" + cc);
    }
    count("single_cuts", (long)(n > 0 ? n - 1 : 0));
    // byte by byte
    if (n > 1) { std::vector<size_t> all; for (size_t c = 1; c < n; c++) all.push_back(c); run(all, "bytewise"); count("bytewise"); }
    // sampled multi-cut segmentations, biased to role boundaries, CR|LF and chunk-size lines
    Rng r(g_opts.seed * 7919 + (uint64_t)idx);
    std::vector<size_t> interesting;
    for (size_t c = 1; c < n; c++) if (m.roles[c] != m.roles[c - 1] || m.roles[c] == mg::R_CSIZE) interesting.push_back(c);
    int nmulti = (int)g_opts.num("multi", 32);
    for (int k = 0; k < nmulti && n > 2; k++) {
        int nc = r.range(2, 6);
        std::set<size_t> cs;
        for (int j = 0; j < nc; j++) cs.insert(!interesting.empty() && r.chance(1, 2) ? r.pick(interesting) : 1 + r.below(n - 1));
        std::vector<size_t> cuts(cs.begin(), cs.end());
        run(cuts, "multi");
        std::string sig; for (auto c : cuts) sig += m.cutClass(c) + ",";
        g_distinct.add(m.shape + "#m#" + sig);
    }
    count("multi_cuts", nmulti);
    count("messages");
    count("shape_" + m.shape);
}

static void run_c01(long cases) {
    mg::GenOpts go; go.allowDefects = true; go.maxBody = (int)g_opts.num("maxbody", 1200);
    for (long i = g_opts.shard; i < cases * g_opts.nshards; i += g_opts.nshards) {
        if (i <= g_skip_until) continue;
        Rng r(g_opts.seed * 1000003ull + (uint64_t)i);
        Msg m = mg::gen_message(r, go);
        if (m.response) c01_message<Http::ResponseParser>(i, m); else c01_message<Http::RequestParser>(i, m);
    }
}

// ---------------------------------------------------------------- C04
template <class P> static void framework_reset(P& p);
template <> void framework_reset(Http::RequestParser& p) { p.reset(); }
template <> void framework_reset(Http::ResponseParser& p) { Http::Response taken = std::move(p.response); (void)taken; p.reset(); }  // the client moves the response out, then resets

static std::vector<size_t> random_cuts(Rng& r, size_t n) {
    std::vector<size_t> cuts;
    if (n < 2) return cuts;
    int style = r.range(0, 3);
    if (style == 0) return cuts;
    if (style == 1) { for (size_t c = 1; c < n; c++) cuts.push_back(c); return cuts; }
    int nc = r.range(1, 6); std::set<size_t> cs;
    for (int j = 0; j < nc; j++) cs.insert(1 + r.below(n - 1));
    cuts.assign(cs.begin(), cs.end());
    return cuts;
}
template <class P> static void c04_sequence(long idx, Rng& r, bool response) {
    size_t maxsz = r.chance(1, 2) ? 4096 : r.chance(1, 2) ? 1024 : 512;
    int k = r.range(2, 5);
    P shared(maxsz);
    std::string history;
    std::string prevHow = "first";
    std::string worstHow;   // an abandoned predecessor anywhere earlier in the history outranks the immediate one
    for (int j = 0; j < k; j++) {
        mg::GenOpts go; go.forceResponse = response ? 1 : 0; go.allowDefects = r.chance(1, 3);
        // bodies sometimes beyond the limit so that the predecessor is abandoned mid-body by the size check
        go.maxBody = r.chance(1, 3) ? (int)maxsz * 2 : (int)maxsz / 3;
        Msg m = mg::gen_message(r, go);
        std::vector<size_t> cuts = random_cuts(r, m.bytes.size());
        // reference: fresh parser, same limit, same segmentation
        Outcome ref; bool e1;
        { P fresh(maxsz); ref = deliver(fresh, m.bytes, cuts, e1); }
        set_case(idx, Json().num("i", idx).str("phase", "c04").str("kind", response ? "resp" : "req").num("position", j).str("previous", prevHow).str("shape", m.shape)
                          .num("limit", (long long)maxsz).raw("cuts", cuts_json(cuts)).str("hex", hex(m.bytes.substr(0, 3000))).str("history", history).done());
        g_cpu.arm(3.0);
        Outcome got; bool e2;
        got = deliver(shared, m.bytes, cuts, e2);
        g_cpu.disarm();
        g_evals++;
        // Compare (an incomplete message = the client went away; nothing further is delivered on this connection)
        std::string sym;
        if (ref.kind != got.kind) sym = "outcome-differs";
        else if (ref.kind == 2 && ref.code != got.code) sym = "error-status-differs";
        else if (ref.kind == 1 && ref.snapshot != got.snapshot) sym = "message-differs";
        else if (ref.kind != 0 && (ref.piece != got.piece)) sym = "completes-at-another-piece";
        if (!sym.empty() && j > 0) {
            std::string key = std::string("c04:") + (response ? "resp" : "req") + ":" + sym + ":after-" + (worstHow.empty() ? prevHow : worstHow) + ":" + (m.shape.substr(m.shape.find('/') + 1));
            violation(key, "message " + std::to_string(j) + " on a reused parser: " + got.brief() + "; on a fresh parser: " + ref.brief() + " (previous message " + prevHow + ")", g_case);
        }
        g_distinct.add(std::string(response ? "resp" : "req") + ":" + prevHow + ">" + m.shape + ":" + (got.kind == 0 ? "A" : got.kind == 1 ? "D" : "E" + std::to_string(got.code)));
        count("c04_messages");
        if (got.kind == 0) { count("c04_incomplete_end"); break; }   // connection would stay waiting; end of this history
        // what the framework does next
        std::string shapeTail = m.shape.substr(m.shape.find('/') + 1);
        if (got.kind == 1) { prevHow = "done-" + shapeTail.substr(0, shapeTail.find('/')); framework_reset(shared); }
        else {
            bool midBody = false;
            // abandoned where? classify by the role of the last byte delivered before the error
            size_t upto = got.piece < cuts.size() ? cuts[got.piece] : m.bytes.size();
            if (upto > 0 && upto <= m.roles.size()) { auto rl = m.roles[upto - 1]; midBody = rl >= mg::R_BODY; }
            prevHow = std::string("error") + std::to_string(got.code) + (midBody ? "-in-body-" : "-in-head-") + shapeTail.substr(0, shapeTail.find('/'));
            if (midBody || worstHow.empty()) worstHow = prevHow;
            if (response && g_opts.num("client_resets_on_error", 1) == 0) { /* emulate a client that does not reset */ }
            else shared.reset();
        }
        history += m.shape + "[" + got.brief().substr(0, 24) + "];";
        if (g_samples_left > 0 && (idx % 211) == 7 && j == 1) { g_samples_left--; sample(Json().str("history", history).str("second_shape", m.shape).done()); }
    }
    count("c04_sequences");
}
static void run_c04(long cases) {
    for (long i = g_opts.shard; i < cases * g_opts.nshards; i += g_opts.nshards) {
        if (i <= g_skip_until) continue;
        Rng r(g_opts.seed * 1000033ull + (uint64_t)i);
        if (r.chance(1, 3)) c04_sequence<Http::ResponseParser>(i, r, true); else c04_sequence<Http::RequestParser>(i, r, false);
    }
}

// ---------------------------------------------------------------- C03
static std::string mutate(Rng& r, std::string s) {
    int m = r.range(1, 4);
    static const char* SPECIAL = "\r\n :;=,?&/+-0123456789abcdefxX\0\xff\t";
    for (int k = 0; k < m; k++) {
        int op = r.range(0, 10);
        size_t pos = s.empty() ? 0 : r.below(s.size());
        switch (op) {
        case 10: put_magic_number(r, s); break;
        case 0: if (!s.empty()) s[pos] ^= (char)(1 << r.below(8)); break;
        case 1: if (!s.empty()) s.erase(pos, (size_t)r.range(1, 8)); break;
        case 2: s.insert(pos, 1, SPECIAL[r.below(34)]); break;
        case 3: if (!s.empty()) s.resize(pos); break;                                        // truncate
        case 4: if (!s.empty()) { size_t l = (size_t)r.range(1, 12); s.insert(pos, s.substr(r.below(s.size()), l)); } break;  // duplicate a token
        case 5: s.insert(pos, std::string((size_t)r.range(1, 40), "9f0-+eE.x"[r.below(9)])); break;   // overlong number
        case 6: if (!s.empty()) { size_t q = s.find("\r\n", pos); if (q != std::string::npos) s.erase(q + (r.chance(1, 2) ? 0 : 1), 1); } break;  // lone CR / lone LF
        case 7: if (!s.empty()) { size_t q = s.find_first_of(":= ", pos); if (q != std::string::npos) { if (r.chance(1, 2)) s.erase(q, 1); else s.insert(q, 1, s[q]); } } break;  // missing / doubled separator
        case 8: if (!s.empty()) s[pos] = (char)(r.chance(1, 2) ? 0 : 0x80 + r.below(128)); break;
        default: { size_t q = s.find("\r\n\r\n"); if (q != std::string::npos && r.chance(1, 2)) s.insert(q + 2, "Content-Length: " + std::to_string(r.next() >> r.below(64)) + "\r\n"); else if (q != std::string::npos) s.insert(q + 2, "Transfer-Encoding: chunked\r\n"); } break;
        }
    }
    return s;
}
static std::string garbage(Rng& r) {
    static const char* PIECES[] = {"GET ", "POST ", "HTTP/1.1", "HTTP/1.1 ", " 200 ", "\r\n", "\r", "\n", ": ", ":", "Content-Length", "Transfer-Encoding", "chunked", "Cookie", "Set-Cookie", "Content-Type",
                                   "text/", "a=b; ", "q=", "0\r\n", "ffffffffffffffff", "-1", "1e999", " ", "?", "&", "=", "/", "\0", "\xff", "max-age=", "Cache-Control", "Host", "[::", "]:", "Date", "Sun, 06 Nov", "Expect", "Accept", "*/*", ",", ";"};
    std::string s; int n = r.range(1, 30);
    for (int i = 0; i < n; i++) { if (r.chance(1, 5)) s += mg::octets(r, r.range(1, 6), 0); else { const char* p = r.pick(PIECES); s += (p[0] == 0 ? std::string(1, '\0') : std::string(p)); } }
    return s;
}
template <class P> static void c03_parser_case(long idx, const std::string& bytes, const std::vector<size_t>& cuts, const std::string& origin, size_t maxsz) {
    std::string kind = std::is_same<P, Http::RequestParser>::value ? "req" : "resp";
    set_case(idx, Json().num("i", idx).str("phase", "c03-parser").str("kind", kind).str("origin", origin).num("limit", (long long)maxsz).raw("cuts", cuts_json(cuts)).num("len", (long long)bytes.size()).str("hex", hex(bytes.substr(0, 5000))).done());
    g_cpu.arm(2.0);
    size_t peak = 0, largest = 0;
    Outcome out;
    {
        MonScope ms;
        P p(maxsz);
        bool early;
        out = deliver(p, bytes, cuts, early);
        peak = g_peak; largest = g_largest;
    }
    g_cpu.disarm();
    g_evals++;
    count("c03_parser_" + kind + (out.kind == 0 ? "_again" : out.kind == 1 ? "_done" : "_error"));
#if HAVE_ALLOCMON
    // memory attributable to one parser: nothing may be requested or held beyond a small multiple of the limit
    size_t slack = 8192;
    if (largest > 2 * maxsz + 1024)
        violation("c03:alloc:single-request:" + kind, "one allocation of " + std::to_string(largest) + " bytes while parsing with limit " + std::to_string(maxsz), g_case);
    else if (peak > 4 * maxsz + slack)
        violation("c03:alloc:peak-live:" + kind, "peak live " + std::to_string(peak) + " bytes while parsing with limit " + std::to_string(maxsz), g_case);
    static size_t worstPeak = 0, worstLargest = 0;
    if (peak > worstPeak) { worstPeak = peak; g_counts["alloc_worst_peak_live"] = (long)peak; }
    if (largest > worstLargest) { worstLargest = largest; g_counts["alloc_worst_single_request"] = (long)largest; }
#endif
    g_distinct.add(kind + ":" + origin + ":" + std::to_string(out.kind) + ":" + std::to_string(out.code) + ":" + std::to_string(fnv(bytes) % 8192));
}
static Fence& fence_slot() { static Fence pool[4]; static int n = 0; return pool[n++ & 3]; }
static std::vector<std::string> g_regnames;
static void c03_value_case(long idx, Rng& r) {
    // every value parser reachable from the message parser, from an unterminated guard-page buffer
    int which = r.range(0, 7);
    std::string text, target;
    auto base = [&](const std::string& valid) { return r.chance(1, 4) ? garbage(r) : r.chance(1, 6) ? valid : mutate(r, valid); };
    if (which <= 2) {
        target = r.pick(g_regnames);
        mg::HeaderLine h = mg::typed_header(r, r.chance(1, 2));
        for (int t = 0; t < 20 && Http::Header::toLowercase(h.name) != Http::Header::toLowercase(target); t++) h = mg::typed_header(r, r.chance(1, 2));
        text = base(h.value);
    } else if (which == 3) { target = "Cookie::fromRaw"; text = base(mg::setcookie_header(r).value); }
    else if (which == 4) { target = "CookieJar::addFromRaw"; text = base(mg::cookie_header(r).value); }
    else if (which == 5) { target = "MediaType::fromRaw"; text = base(r.chance(1, 2) ? "application/vnd.api+json; q=0.75; charset=utf-8" : "text/plain;q=1"); }
    else if (which == 6) { target = r.chance(1, 2) ? "Address" : "Port"; text = base(r.chance(1, 2) ? "[::ffff:1.2.3.4]:8080" : "127.0.0.1:65535"); for (auto& c : text) if ((unsigned char)c >= 0x80 || c == 0) c = '1'; }
    else { target = "Base64Decoder"; text = base("QWxhZGRpbjpvcGVuIHNlc2FtZQ=="); }
    if (text.size() > 300) text.resize(300);
    set_case(idx, Json().num("i", idx).str("phase", "c03-value").str("target", target).str("text", text).str("hex", hex(text)).done());
    g_cpu.arm(2.0);
    Fence& f = fence_slot(); f.place(text.data(), text.size());
    bool threw = false;
    try {
        if (which <= 2) { auto h = Http::Header::Registry::instance().makeHeader(target); h->parseRaw(f.ptr, f.len); std::ostringstream os; h->write(os); }
        else if (which == 3) { auto c = Http::Cookie::fromRaw(f.ptr, f.len); std::ostringstream os; os << c; }
        else if (which == 4) { Http::CookieJar j; j.addFromRaw(f.ptr, f.len); size_t n = 0; for (auto it = j.begin(); it != j.end() && n < 1000; ++it) n++; }
        else if (which == 5) { auto m = Http::Mime::MediaType::fromRaw(f.ptr, f.len); (void)m.toString(); }
        else if (which == 6) {
            // name resolution is not wanted here: only numeric-looking hosts
            bool numeric = true; for (char c : text) if (isalpha((unsigned char)c) && !isxdigit((unsigned char)c)) numeric = false;
            if (target == "Port") { Port p(text); (void)p; } else if (numeric) { Address a(text); (void)a.host(); }
        } else { std::string* heap = new std::string(text); heap->shrink_to_fit(); try { Base64Decoder d(*heap); d.Decode(); } catch (...) { delete heap; throw; } delete heap; }
    } catch (const std::exception&) { threw = true; } catch (...) { threw = true; }
    g_cpu.disarm();
    g_evals++;
    count("c03_value_" + std::string(threw ? "rejected" : "accepted"));
    count("c03_value_target_" + target);
    g_distinct.add("v:" + target + ":" + (threw ? "T" : "A") + std::to_string(fnv(text) % 4096));
}
static void c03_directed(long idx, const std::string& target, const std::string& text) {
    set_case(idx, Json().num("i", idx).str("phase", "c03-value").str("target", target).str("text", text).str("hex", hex(text)).done());
    Fence& f = fence_slot(); f.place(text.data(), text.size());
    try {
        if (target == "Cookie::fromRaw") (void)Http::Cookie::fromRaw(f.ptr, f.len);
        else if (target == "MediaType::fromRaw") (void)Http::Mime::MediaType::fromRaw(f.ptr, f.len);
        else { auto h = Http::Header::Registry::instance().makeHeader(target); h->parseRaw(f.ptr, f.len); }
    } catch (...) {}
    g_evals++;
    count("c03_directed");
}
static void run_c03(long cases) {
    g_regnames = Http::Header::Registry::instance().headersList();
    std::sort(g_regnames.begin(), g_regnames.end());
    if (g_opts.shard == 0 && g_skip_until < 0) {
        // directed probes (always run): dates cut short / with overlong fields / far-out years, numbers at the end of the buffer
        const char* dates[] = {"Thu, 07 Sep 2090", "Sun, 06 Nov 1994 08:49:3799999999999999999999 GMT", "Wed, 24 Nov 04 03:42:13 UTC", "Sun, 06 Nov 99999 08:49:37 GMT", "Sunday, 06-Nov-94 08:49", "Sun Nov  6 08:49:37", ""};
        long k = -100;
        for (auto d : dates) { c03_directed(k++, "Date", d); c03_directed(k++, "Cookie::fromRaw", std::string("a=b; Expires=") + d); }
        for (auto t : {"max-age=12", "max-age=", "max-age", "max-age=99999999999999999999", "no-cache,", ","}) c03_directed(k++, "Cache-Control", t);
        for (auto t : {"text/plain; q=0.5", "text/plain; q=", "text/plain; q", "text/plain;", "text/", "text/plain; q=1e999", "text/plain; q=nan", "text/plain; q=0x1p-1"}) c03_directed(k++, "MediaType::fromRaw", t);
        for (auto t : {"100-continue", "100-continu", ""}) c03_directed(k++, "Expect", t);
        for (auto t : {"2147483639", "2147483640", "2147483646", "2147483647", "2147483648", "2147483649", "2147483650", "4294967295", "4294967296", "9223372036854775807", "9223372036854775808", "18446744073709551616", "-1", "-2147483648", "-2147483649"}) {
            c03_directed(k++, "Cookie::fromRaw", std::string("a=b; Max-Age=") + t); c03_directed(k++, "Cache-Control", std::string("max-age=") + t); c03_directed(k++, "Content-Length", t); }
        for (auto t : {"18446744073709551615", "18446744073709551616", "-1", "", " 5"}) c03_directed(k++, "Content-Length", t);
    }
    for (long i = g_opts.shard; i < cases * g_opts.nshards; i += g_opts.nshards) {
        if (i <= g_skip_until) continue;
        Rng r(g_opts.seed * 1000037ull + (uint64_t)i);
        if (r.chance(1, 4)) { c03_value_case(i, r); continue; }
        mg::GenOpts go; go.allowDefects = true; go.maxBody = 600;
        std::string bytes, origin;
        int w = r.range(0, 9);
        if (w <= 5) { Msg m = mg::gen_message(r, go); bytes = mutate(r, m.bytes); origin = "mutant-" + m.shape.substr(0, m.shape.find('/', 5)); }
        else if (w <= 7) { bytes = garbage(r); origin = "garbage"; }
        else if (w == 8) { Msg m = mg::gen_message(r, go); bytes = m.bytes.substr(0, r.below(m.bytes.size() + 1)); origin = "truncated"; }
        else { Msg m = mg::gen_message(r, go); bytes = m.bytes; origin = "valid"; }
        size_t maxsz = r.chance(3, 4) ? 4096 : r.chance(1, 2) ? 256 : 64;
        bool asResponse = r.chance(1, 3);
        for (int del = 0; del < 3; del++) {
            std::vector<size_t> cuts;
            if (del == 1) { for (size_t c = 1; c < bytes.size(); c++) cuts.push_back(c); }
            else if (del == 2) cuts = random_cuts(r, bytes.size());
            if (asResponse) c03_parser_case<Http::ResponseParser>(i, bytes, cuts, origin, maxsz);
            else c03_parser_case<Http::RequestParser>(i, bytes, cuts, origin, maxsz);
        }
        if (g_samples_left > 0 && (i % 53) == 9) { g_samples_left--; sample(Json().str("origin", origin).str("text", bytes.substr(0, 200)).done()); }
    }
}

// ---------------------------------------------------------------- replay of a recorded witness
static int run_replay() {
    std::string bytes = unhex(g_opts.get("hex"));
    std::vector<size_t> cuts;
    { std::string c = g_opts.get("cuts"); size_t p = 0; while (p < c.size()) { size_t q = c.find(',', p); if (q == std::string::npos) q = c.size(); if (q > p) cuts.push_back((size_t)atol(c.substr(p, q - p).c_str())); p = q + 1; } }
    size_t maxsz = (size_t)g_opts.num("limit", (long)BIGMAX);
    bool resp = g_opts.get("kind") == "resp";
    Outcome whole, got; bool e1, e2;
    g_cpu.arm(5.0);
    if (resp) { { Http::ResponseParser p(maxsz); whole = deliver(p, bytes, {}, e1); } Http::ResponseParser q(maxsz); got = deliver(q, bytes, cuts, e2); }
    else { { Http::RequestParser p(maxsz); whole = deliver(p, bytes, {}, e1); } Http::RequestParser q(maxsz); got = deliver(q, bytes, cuts, e2); }
    g_cpu.disarm();
    printf("whole:     %s\nsegmented: %s%s (piece %zu of %zu)\n", whole.brief().c_str(), got.brief().c_str(), e2 ? " EARLY" : "", got.piece + 1, cuts.size() + 1);
    bool same = whole == got && !e2;
    printf("%s\n", same ? "AGREE" : "DIFFER");
    return same ? 0 : 1;
}

static bool g_finished = false;
static void finish_output(bool died) {
    if (g_finished) return;
    g_finished = true;
    g_distinct.flush();
    Json s; s.str("t", died ? "partial" : "sum").num("evaluations", g_evals).num("san_reports", g_san_reports);
    Json c; for (auto& kv : g_counts) c.num(kv.first, kv.second);
    s.raw("counts", c.done());
    std::vector<std::string> cc; for (auto& x : g_cutclasses) cc.push_back(jstr(x));
    s.raw("cutclasses", jarr(cc));
    emit(s.done());
}
#if defined(__SANITIZE_ADDRESS__)
extern "C" void __sanitizer_set_death_callback(void (*)(void));
static void on_death() { finish_output(true); }
#endif

int main(int argc, char** argv) {
    g_opts = parse_opts(argc, argv);
#if defined(__SANITIZE_ADDRESS__)
    __sanitizer_set_death_callback(on_death);
#endif
    install_handlers();
    g_cpu.init();
    g_skip_until = g_opts.num("skip", -1);
    std::string prop = g_opts.get("prop", "c01");
    if (g_opts.mode == "replay") return run_replay();
    if (prop == "c01") run_c01(g_opts.cases);
    else if (prop == "c04") run_c04(g_opts.cases);
    else if (prop == "c03") run_c03(g_opts.cases);
    finish_output(false);
    return 0;
}
