# C16-C20: value-level round-trip / rejection monitors in the asan flavour (guard-page inputs).
import os, sys, json
sys.path.insert(0, os.path.join(os.path.dirname(os.path.abspath(__file__)), "..", "lib"))
import vlib

CASES = {  # per shard
    "C16": dict(quick=12000, thorough=300000),
    "C17": dict(quick=60000, thorough=1500000),
    "C18": dict(quick=60000, thorough=1500000),
    "C19": dict(quick=60000, thorough=1500000),
    "C20": dict(quick=60000, thorough=1500000),
}
REENT_RULE = "; concurrent use: the operations of this property (write/parse round trips on objects private to each thread) run by 6 threads at once and compared with their results when run alone, in the plain flavour and under ThreadSanitizer"
RULES = {
    "C16": "typed headers: generated values per header type (boundary + random) written, parsed back from a guard-page buffer and via parse(string), accessors and re-written text compared; parsed messages: every header looked up under all 2^k capitalisations (k<=6 letters in quick, k<=10 in thorough; 64 sampled above). distinct = (header, value class, text hash%64) and message shapes",
    "C17": "cookies: all 128 attribute subsets x random field values written and parsed back field-wise; hand-assembled attribute orders/cases; Cookie headers with repeated names/pairs vs jar contents and iteration; mutated strings for rejection-without-crash. distinct = attribute-set/order/jar-shape classes",
    "C18": "media types: full product type x subtype x suffix (x q), random params, hand-assembled texts with vendor/extension subtypes and random letter case, invalid classes expecting HttpError 415, mutants ending after separators; all from guard-page buffers. distinct = (type,subtype,suffix,q-class,params) shapes and text hashes",
    "C19": "addresses: all 65536 ports, random dotted quads, IPv6 in canonical/full/mixed-case forms from random 128-bit values, aliases, rejection classes named by the statement; printed form re-parsed; addresses built from IP objects (four octets, eight groups, any(), loopback()) printed and parsed back. distinct = (class, literal hash%4096)",
    "C20": "base64: every length 0..600 with several contents, all 1-byte and (sampled or all) 2-byte strings vs an independent RFC 4648 encoder; credentials with arbitrary users/passwords; invalid text from exact-size heap blocks. distinct = (len%3, length, content hash) classes",
}


def run(pid, tier, seed, replay=None):
    v = vlib.Verdict(pid, tier, seed, level="exploration")
    binary = vlib.build_harness("values", "asan")
    nsh = vlib.NCPU if tier == "thorough" else 8
    cases = CASES[pid][tier]
    work = vlib.scratch_dir(pid)
    prop = pid.lower()
    all_counts, distinct, samples = {}, set(), []
    san_reports = 0
    san_keys = {}
    evaluations = 0
    restarts_total = 0

    def shard(i):
        skip = 0
        outs = []
        for attempt in range(25):
            args = ["--prop", prop, "--seed", str(seed), "--shard", str(i), "--nshards", str(nsh), "--cases", str(cases),
                    "--mode", tier, "--skip", str(skip)]
            outfile = os.path.join(work, "v.%d.%d.jsonl" % (i, attempt))
            r = vlib.run_proc([binary] + args + ["--out", outfile], timeout=3600 if tier == "thorough" else 900,
                              env=vlib.SAN_ENV_EXPLORE, cwd=work)
            r["recs"] = vlib.read_jsonl(outfile)
            r["reports"] = vlib.parse_sanitizer_text(r["out"])
            outs.append(r)
            done = any(x.get("t") == "sum" for x in r["recs"])
            if done:
                break
            # died: find the case in flight
            idx = None
            for x in r["recs"]:
                if x.get("t") == "crash":
                    idx = x.get("index")
                    r["crash"] = x
            if idx is None:
                for rep in reversed(r["reports"]):
                    if rep.get("case") and isinstance(rep["case"], dict) and "i" in rep["case"]:
                        idx = rep["case"]["i"]
                        break
            if r["timed_out"] or idx is None or idx <= skip:
                r["unresumable"] = True
                break
            skip = idx
        return outs

    from concurrent.futures import ThreadPoolExecutor
    with ThreadPoolExecutor(nsh) as ex:
        results = list(ex.map(shard, range(nsh)))

    for outs in results:
        restarts_total += len(outs) - 1
        for r in outs:
            cnt, dis, smp = vlib.merge_harness_records([r], v)
            evaluations += cnt.get("evaluations", 0)
            for k, val in cnt.get("counts", {}).items():
                all_counts[k] = all_counts.get(k, 0) + val
            distinct |= dis
            samples += smp
            for rep in r["reports"]:
                san_reports += 1
                key = vlib.san_key(rep)
                if not rep.get("in_repo") and rep["tool"] != "asan":
                    continue
                c = rep.get("case") or {}
                cls = "%s:%s" % (c.get("kind", "?"), c.get("class", "?")) if isinstance(c, dict) else "?"
                san_keys.setdefault(key, 0)
                san_keys[key] += 1
                v.violation(key, "%s %s in %s (%s) while running %s" % (rep["tool"], rep["kind"], rep["func"], rep["file"], cls),
                            dict(case=c, stack=rep["stack"], report=rep["text"][:3000]))
            if r.get("crash"):
                c = r["crash"]
                sig = {43: "cpu-hang"}.get(r["rc"], "crash")
                fn = "?"
                for fr in c.get("bt", []):
                    if "Pistache" in fr:
                        fn = fr.split("(")[1].split("+")[0] if "(" in fr else fr
                        break
                kind = (c.get("case") or {}).get("kind", "?")
                v.violation("%s:%s:%s" % ("hang" if c.get("sig") == 24 else "crash", kind, fn[:60]),
                            "signal %s in case %s" % (c.get("sig"), kind), c)
            if r.get("unresumable"):
                if r["timed_out"]:
                    v.add_inconclusive("shard timed out (wall-clock watchdog)")
                else:
                    v.add_inconclusive("harness died without naming a case: rc=%s tail=%s" % (r["rc"], r["out"][-300:]))

    # memcheck cross-check: a slice of the same cases in the plain flavour under valgrind (values read before they are written are
    # invisible to ASan/UBSan)
    pbin = vlib.build_harness("values", "plain")
    mres = vlib.run_memcheck(pbin, ["--prop", prop, "--seed", str(seed + 11), "--cases", str(1500 if tier == "quick" else 40000), "--mode", tier], 8 if tier == "quick" else vlib.NCPU, work,
                             timeout=600 if tier == "quick" else 7200)
    mc, md, ms, mst = vlib.collect_runs(v, mres, judge_report=lambda rep: rep.get("in_repo"))
    memcheck = dict(evaluations=int(mc.get("evaluations", 0)), **mst)

    # re-entrancy: the same kinds of operation run by several threads at once, each on objects of its own; results compared with the
    # results obtained alone (plain flavour: many pairs; tsan flavour: ThreadSanitizer as the oracle for shared scratch state)
    rbin = vlib.build_harness("reent", "plain")
    rres = vlib.run_resumable(rbin, ["--prop", prop, "--seed", str(seed + 19), "--cases", str(1500 if tier == "quick" else 60000), "--threads", "6"], 2 if tier == "quick" else 4,
                              timeout=600 if tier == "quick" else 7200, work=work, tag="rp")
    rc_, rd, rs, rst = vlib.collect_runs(v, rres)
    tbin = vlib.build_harness("reent", "tsan", opt="-O1")
    tres = vlib.run_resumable(tbin, ["--prop", prop, "--seed", str(seed + 23), "--cases", str(250 if tier == "quick" else 6000), "--threads", "6"], 2 if tier == "quick" else 4,
                              timeout=600 if tier == "quick" else 7200, work=work, env=vlib.SAN_ENV_EXPLORE, tag="rt")
    tc_, td, ts_, tst = vlib.collect_runs(v, tres, judge_report=lambda rep: rep["tool"] != "tsan" or rep.get("in_repo"))
    distinct |= rd | td
    reent = dict(evaluations_plain=int(rc_.get("evaluations", 0)), evaluations_tsan=int(tc_.get("evaluations", 0)), counts=rc_.get("counts", {}), samples=rs[:4], plain=rst, tsan=tst)
    if int(rc_.get("evaluations", 0)) == 0 or int(tc_.get("evaluations", 0)) == 0:
        v.add_inconclusive("the re-entrancy stage observed nothing")

    v.coverage.update(memcheck_pass=memcheck, concurrent_use=reent, evaluations=int(evaluations), distinct_nontrivial=len(distinct), rule=RULES[pid] + REENT_RULE,
                      samples=samples[:8], monitor_counts=all_counts, sanitizer_reports_seen=san_reports,
                      sanitizer_report_keys=san_keys, shards=nsh, resumed_after_fatal_report=restarts_total)
    v.assumptions += ["library and harness built -O1/-O0 -DNDEBUG-free with -fsanitize=address,undefined,float-cast-overflow and libstdc++ vector annotations",
                      "exception type / accessor comparisons as stated in DESIGN.md section 2 for this property"]
    import shutil
    rc = v.finish()
    shutil.rmtree(work, ignore_errors=True)
    return rc
