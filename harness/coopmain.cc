// C12 (cross-thread settle vs attach on promises) and C13 (MPSC pollable queue) under
//   --mode coop : the cooperative scheduler of coop.h at the PISTACHE_VERIF hooks (seeded schedule sampling)
//   --mode free : free-running threads released by a barrier, hooks inject short random spins
//                 (built with -fsanitize=thread: the race detector is the oracle for unsynchronised accesses)
#include "common.h"
#include "coop.h"
#include <pistache/async.h>
#include <pistache/mailbox.h>
#include <pistache/os.h>
#include <poll.h>
#include <atomic>

using namespace Pistache;
using namespace vf;

static Opts g_opts;
static Distinct g_distinct;
static long g_evals = 0;
static std::map<std::string, long> g_counts;
static long g_samples_left = 6;
static void count(const std::string& k, long n = 1) { g_counts[k] += n; }
struct TestExc : std::runtime_error { int id; explicit TestExc(int i) : std::runtime_error("x"), id(i) {} };

// ------------------------------------------------------------------ free-running helpers
static thread_local uint64_t tl_spin_state = 0;
static std::atomic<int> g_spin_max{50};
static void spin_hook(int site, const void*) {
    uint64_t& s = tl_spin_state;
    s = s * 6364136223846793005ull + 1442695040888963407ull + (uint64_t)site;
    unsigned r = (unsigned)(s >> 33);
    if ((r & 3) != 0) return;                       // most points: no delay
    int us = (int)((r >> 2) % (unsigned)(g_spin_max.load(std::memory_order_relaxed) + 1));
    if (us == 0) { std::this_thread::yield(); return; }
    double end = now_s() + us * 1e-6;
    while (now_s() < end) { }
}
struct Barrier2 {
    std::atomic<int> waiting{0}; int n;
    explicit Barrier2(int k) : n(k) {}
    void arrive() { waiting.fetch_add(1); while (waiting.load() < n) { } }
};
static void run_free(const std::vector<std::function<void()>>& bodies, uint64_t seed) {
    Verif::g_yield = spin_hook; Verif::g_lock = nullptr;
    Barrier2 b((int)bodies.size());
    std::vector<std::thread> th;
    for (size_t i = 0; i < bodies.size(); i++) th.emplace_back([&, i] { tl_spin_state = seed * 977 + i * 131 + 7; b.arrive(); bodies[i](); });
    for (auto& t : th) t.join();
    Verif::g_yield = nullptr;
}

// ------------------------------------------------------------------ C12 scenarios
struct Obs { std::atomic<int> ok{0}, rej{0}; std::atomic<long> val{-999}; std::atomic<int> exc{-1}; };
static int exc_id(std::exception_ptr p) { if (!p) return -2; try { std::rethrow_exception(p); } catch (const TestExc& e) { return e.id; } catch (...) { return -3; } }
struct Scenario { std::string name; int expOk, expRej; long expVal; int expExc; };

static bool g_coop = true;
static void run_bodies(coop::Sched& s, const std::vector<std::function<void()>>& bodies, uint64_t seed) {
    if (g_coop) coop::run(s, bodies); else run_free(bodies, seed);
}
static std::string c12_judge(const Obs& o, int expOk, int expRej, long expVal, int expExc) {
    if (o.ok > 1) return "fulfil-continuation-ran-twice";
    if (o.rej > 1) return "reject-continuation-ran-twice";
    if (o.ok != expOk) return expOk ? "fulfil-continuation-lost" : "fulfil-continuation-spurious";
    if (o.rej != expRej) return expRej ? "reject-continuation-lost" : "reject-continuation-spurious";
    if (expOk && o.val != expVal) return "wrong-value";
    if (expRej && o.exc != expExc) return "wrong-exception";
    return "";
}
// returns symptom or ""
static std::string c12_scenario(int sc, coop::Sched& s, uint64_t seed, std::string& name) {
    Obs o;
    auto okCb = [&o](int v) { o.ok++; o.val = v; };
    auto rejCb = [&o](std::exception_ptr p) { o.rej++; o.exc = exc_id(p); };
    switch (sc) {
    case 0: {  // S1 resolve || then
        name = "S1-resolve|then";
        Async::Deferred<int> d; Async::Promise<int> p([&](Async::Deferred<int> dd) { d = std::move(dd); });
        run_bodies(s, {[&] { d.resolve(42); }, [&] { p.then(okCb, rejCb); }}, seed);
        return c12_judge(o, 1, 0, 42, -1);
    }
    case 1: {  // S2 reject || then
        name = "S2-reject|then";
        Async::Deferred<int> d; Async::Promise<int> p([&](Async::Deferred<int> dd) { d = std::move(dd); });
        run_bodies(s, {[&] { d.reject(TestExc(5)); }, [&] { p.then(okCb, rejCb); }}, seed);
        return c12_judge(o, 0, 1, 0, 5);
    }
    case 2: {  // S3 resolve(parent) || then(derived)
        name = "S3-resolve(parent)|then(derived)";
        Async::Deferred<int> d; Async::Promise<int> p([&](Async::Deferred<int> dd) { d = std::move(dd); });
        auto q = p.then([](int v) { return v + 1; }, Async::Throw);
        run_bodies(s, {[&] { d.resolve(1); }, [&] { q.then(okCb, rejCb); }}, seed);
        return c12_judge(o, 1, 0, 2, -1);
    }
    case 3: {  // S4 resolve(parent) || then(derived).then
        name = "S4-resolve(parent)|then(derived).then";
        Async::Deferred<int> d; Async::Promise<int> p([&](Async::Deferred<int> dd) { d = std::move(dd); });
        auto q = p.then([](int v) { return v + 1; }, Async::Throw);
        run_bodies(s, {[&] { d.resolve(1); }, [&] { q.then([](int v) { return v * 10; }, Async::Throw).then(okCb, rejCb); }}, seed);
        return c12_judge(o, 1, 0, 20, -1);
    }
    case 4: {  // S5 promise-returning continuation, inner settled by a third thread
        name = "S5-inner-promise-third-thread";
        Async::Deferred<int> d; Async::Promise<int> p([&](Async::Deferred<int> dd) { d = std::move(dd); });
        Async::Deferred<int> inner; std::atomic<bool> haveInner{false};
        auto q = p.then([&](int) { return Async::Promise<int>([&](Async::Deferred<int> dd) { inner = std::move(dd); haveInner = true; }); }, Async::Throw);
        run_bodies(s, {[&] { d.resolve(1); },
                       [&] { q.then(okCb, rejCb); },
                       [&] { if (g_coop) { if (!coop::wait_until([&] { return haveInner.load(); }, 60)) return; } else { while (!haveInner.load()) std::this_thread::yield(); } inner.resolve(7); }}, seed);
        return c12_judge(o, 1, 0, 7, -1);
    }
    case 5: {  // S6 reject(parent) || then(derived), rethrow handler forwards
        name = "S6-reject(parent)|then(derived)";
        Async::Deferred<int> d; Async::Promise<int> p([&](Async::Deferred<int> dd) { d = std::move(dd); });
        auto q = p.then([](int v) { return v + 1; }, Async::Throw);
        run_bodies(s, {[&] { d.reject(TestExc(9)); }, [&] { q.then(okCb, rejCb); }}, seed);
        return c12_judge(o, 0, 1, 0, 9);
    }
    case 6: {  // S7 two attachers vs one settler
        name = "S7-resolve|then|then";
        Obs o2;
        Async::Deferred<int> d; Async::Promise<int> p([&](Async::Deferred<int> dd) { d = std::move(dd); });
        run_bodies(s, {[&] { d.resolve(3); }, [&] { p.then(okCb, rejCb); }, [&] { p.then([&o2](int v) { o2.ok++; o2.val = v; }, [&o2](std::exception_ptr) { o2.rej++; }); }}, seed);
        std::string a = c12_judge(o, 1, 0, 3, -1);
        return a.empty() ? c12_judge(o2, 1, 0, 3, -1) : a;
    }
    case 7: {  // S8 void promise: resolve || then
        name = "S8-void-resolve|then";
        Async::Deferred<void> d; Async::Promise<void> p([&](Async::Deferred<void> dd) { d = std::move(dd); });
        run_bodies(s, {[&] { d.resolve(); }, [&] { p.then([&o]() { o.ok++; o.val = 0; }, rejCb); }}, seed);
        return c12_judge(o, 1, 0, 0, -1);
    }
    // the derived promise is settled by a different specialisation of the continuation for each combination of parent type
    // (value / void) and continuation result (value / promise): one scenario per specialisation
    case 8: {  // S9 void parent, value-returning continuation
        name = "S9-resolve(void-parent)|then(derived)";
        Async::Deferred<void> d; Async::Promise<void> p([&](Async::Deferred<void> dd) { d = std::move(dd); });
        auto q = p.then([]() { return 5; }, Async::Throw);
        run_bodies(s, {[&] { d.resolve(); }, [&] { q.then(okCb, rejCb); }}, seed);
        return c12_judge(o, 1, 0, 5, -1);
    }
    case 9: {  // S10 void parent, promise-returning continuation, inner settled by a third thread
        name = "S10-void-parent-inner-promise-third-thread";
        Async::Deferred<void> d; Async::Promise<void> p([&](Async::Deferred<void> dd) { d = std::move(dd); });
        Async::Deferred<int> inner; std::atomic<bool> haveInner{false};
        auto q = p.then([&]() { return Async::Promise<int>([&](Async::Deferred<int> dd) { inner = std::move(dd); haveInner = true; }); }, Async::Throw);
        run_bodies(s, {[&] { d.resolve(); },
                       [&] { q.then(okCb, rejCb); },
                       [&] { if (g_coop) { if (!coop::wait_until([&] { return haveInner.load(); }, 60)) return; } else { while (!haveInner.load()) std::this_thread::yield(); } inner.resolve(8); }}, seed);
        return c12_judge(o, 1, 0, 8, -1);
    }
    case 10: {  // S11 promise-returning continuation whose inner promise is already fulfilled: the derived promise is settled inside resolve(parent)
        name = "S11-resolve(parent)-inner-already-fulfilled|then(derived)";
        Async::Deferred<int> d; Async::Promise<int> p([&](Async::Deferred<int> dd) { d = std::move(dd); });
        auto q = p.then([](int v) { return Async::Promise<int>::resolved(v + 30); }, Async::Throw);
        run_bodies(s, {[&] { d.resolve(1); }, [&] { q.then(okCb, rejCb); }}, seed);
        return c12_judge(o, 1, 0, 31, -1);
    }
    case 11: {  // S12 reject(void parent) || then(derived), rethrow handler forwards
        name = "S12-reject(void-parent)|then(derived)";
        Async::Deferred<void> d; Async::Promise<void> p([&](Async::Deferred<void> dd) { d = std::move(dd); });
        auto q = p.then([]() { return 5; }, Async::Throw);
        run_bodies(s, {[&] { d.reject(TestExc(11)); }, [&] { q.then(okCb, rejCb); }}, seed);
        return c12_judge(o, 0, 1, 0, 11);
    }
    case 15: case 16: {  // S15/S16: the attaching thread has just made a settle attempt that was refused (a value of the wrong type raises in the caller and
                         // leaves the promise pending - the API's own behaviour); then it attaches while the other thread settles for good
        bool rej = sc == 16;
        name = rej ? "S16-refused-resolve-then-then|reject" : "S15-refused-resolve-then-then|resolve";
        std::unique_ptr<Async::Resolver> res1, res2; std::unique_ptr<Async::Rejection> rej1;   // (each thread has a handle of its own on the same promise)
        Async::Promise<int> p([&](Async::Resolver& rs, Async::Rejection& rj) { res1.reset(new Async::Resolver(rs.clone())); res2.reset(new Async::Resolver(rs.clone())); rej1.reset(new Async::Rejection(rj.clone())); });
        std::atomic<int> refused{0};
        run_bodies(s, {[&] { if (rej) (*rej1)(TestExc(5)); else (*res1)(42); },
                       [&] { try { (*res2)(std::string("not an int")); } catch (const std::exception&) { refused++; } p.then(okCb, rejCb); }}, seed);
        if (!refused.load()) return "";   // (the other thread settled first: the wrong-typed attempt was simply ignored or refused differently - nothing to judge beyond the counts)
        return rej ? c12_judge(o, 0, 1, 0, 5) : c12_judge(o, 1, 0, 42, -1);
    }
    case 13: case 14: {  // S14 several continuations attached beforehand (a full list: 2 or 4), resolve || then(one more): the list grows while it is being walked
        static int flip = 0; int pre = sc == 14 ? 4 : g_opts.mode == "dfs" ? 2 : (flip++ % 2) ? 4 : 2;   // (systematic mode: scenario 14 is the 4-attached variant)
        name = "S14-resolve-with-" + std::to_string(pre) + "-attached|then";
        Async::Deferred<int> d; Async::Promise<int> p([&](Async::Deferred<int> dd) { d = std::move(dd); });
        std::atomic<int> preOk{0}, preBad{0};
        for (int k = 0; k < pre; k++) p.then([&](int v) { if (v == 6) preOk++; else preBad++; }, [&](std::exception_ptr) { preBad++; });
        run_bodies(s, {[&] { d.resolve(6); }, [&] { p.then(okCb, rejCb); }}, seed);
        if (preBad || preOk != pre) return preOk > pre ? "fulfil-continuation-ran-twice" : "fulfil-continuation-lost";
        return c12_judge(o, 1, 0, 6, -1);
    }
    default: {  // S13 inner promise REJECTED by a third thread while another thread attaches to the derived promise
        name = "S13-inner-promise-rejected-by-third-thread";
        Async::Deferred<int> d; Async::Promise<int> p([&](Async::Deferred<int> dd) { d = std::move(dd); });
        Async::Deferred<int> inner; std::atomic<bool> haveInner{false};
        auto q = p.then([&](int) { return Async::Promise<int>([&](Async::Deferred<int> dd) { inner = std::move(dd); haveInner = true; }); }, Async::Throw);
        run_bodies(s, {[&] { d.resolve(1); },
                       [&] { q.then(okCb, rejCb); },
                       [&] { if (g_coop) { if (!coop::wait_until([&] { return haveInner.load(); }, 60)) return; } else { while (!haveInner.load()) std::this_thread::yield(); } inner.reject(TestExc(13)); }}, seed);
        return c12_judge(o, 0, 1, 0, 13);
    }
    }
}
static long g_skip = -1;
static void run_c12(long cases) {
    coop::Sched s;
    std::map<std::string, long> perScenario;
    if (g_coop && g_opts.mode == "dfs") {
        // systematic: every schedule of each scenario with at most pb preemptions, depth-first by replaying a prefix of choices
        int pb = (int)g_opts.num("preempt", 2);
        for (int sc = g_opts.shard; sc < 17; sc += g_opts.nshards) {
            std::vector<int> prefix; long done = 0; bool exhausted = false; std::string name;
            for (;;) {
                long i = 1000000L * (sc + 1) + done;
                s.reset(sc == 4 || sc == 6 || sc == 9 || sc == 12 ? 3 : 2, g_opts.seed, 2, 0, 40);
                s.dfsPrefix = prefix; s.preemptBound = pb; s.maxSteps = 4000;
                set_case(i, Json().num("i", i).str("phase", "c12").num("scenario", sc).str("mode", "coop-systematic").done());
                std::string sym = c12_scenario(sc, s, g_opts.seed, name);
                g_evals++; done++;
                if (s.dfsDiverged) count("systematic_runs_that_did_not_repeat_their_prefix");
                if (s.overrun) count("inconclusive_step_bound");
                else {
                    if (s.stuck) sym = sym.empty() ? "deadlock" : sym + "+deadlock";
                    g_distinct.add(name + "#" + std::to_string(coop::trace_hash(s)));
                    if (!sym.empty()) violation("c12:" + name + ":" + sym, "scenario " + name + ": " + sym + " under schedule " + coop::trace_text(s, 120),
                                                Json().num("i", i).num("scenario", sc).str("mode", "coop-systematic").str("schedule", coop::trace_text(s)).done());
                }
                std::vector<int> next; if (!s.next_prefix(next)) { exhausted = true; break; }
                prefix.swap(next);
                if (done >= cases) break;
            }
            count("systematic_schedules_" + name, done); count(std::string(exhausted ? "systematic_tree_exhausted_" : "systematic_tree_cut_at_budget_") + name + "_preemptions_" + std::to_string(pb));
        }
        return;
    }
    for (long i = g_opts.shard; i < cases * g_opts.nshards; i += g_opts.nshards) {
        if (i <= g_skip) continue;
        if (!g_coop && ((i / g_opts.nshards) % 64) == 0) emit(Json().str("t", "progress").num("i", i).num("stride", 64L * g_opts.nshards).done());
        int sc = (int)(i % 16); if (sc >= 14) sc++;   // (14 is the systematic mode's 4-attached variant of S14)
        uint64_t seed = g_opts.seed * 1000003ull + (uint64_t)i;
        int strat = (i / 16) % 3 == 0 ? 1 : 0;
        s.reset(sc == 4 || sc == 6 || sc == 9 || sc == 12 ? 3 : 2, seed, strat, 1 + (int)((i / 42) % 3), 40);
        std::string name;
        set_case(i, Json().num("i", i).str("phase", "c12").num("scenario", sc).num("seed", (long long)g_opts.seed).done());
        std::string sym = c12_scenario(sc, s, seed, name);
        g_evals++;
        count("schedules_" + name);
        if (g_coop) {
            if (s.overrun) { count("inconclusive_step_bound"); continue; }
            if (s.stuck) sym = sym.empty() ? "deadlock" : sym + "+deadlock";
            g_distinct.add(name + "#" + std::to_string(coop::trace_hash(s)));
        } else g_distinct.add(name + "#" + std::to_string(i % 4096));
        if (!sym.empty())
            violation("c12:" + name + ":" + sym, "scenario " + name + ": " + sym + (g_coop ? " under schedule " + coop::trace_text(s, 120) : " (free-running)"),
                      Json().num("i", i).num("scenario", sc).num("seed", (long long)g_opts.seed).str("mode", g_coop ? "coop" : "free").str("schedule", g_coop ? coop::trace_text(s) : "").done());
        if (g_coop && g_samples_left > 0 && (i % 997) == 13) { g_samples_left--; sample(Json().str("scenario", name).str("schedule", coop::trace_text(s, 200)).done()); }
    }
}

// ------------------------------------------------------------------ C13 scenario
struct Item { int prod; int seq; };
static bool readable(int fd) { struct pollfd p{fd, POLLIN, 0}; return ::poll(&p, 1, 0) > 0 && (p.revents & POLLIN); }
static void run_c13(long cases) {
    coop::Sched s;
    int pb = (int)g_opts.num("preempt", 2);
    // one schedule of the scenario (nprod producers x npush pushes against the framework's consumer pattern), judged
    auto one = [&](long i, uint64_t seed, int nprod, int npush, int strat, const std::vector<int>* prefix) {
        s.reset(nprod + 1, seed, strat, 1 + (int)(i % 3), 30 * nprod * npush);
        if (prefix) { s.dfsPrefix = *prefix; s.preemptBound = pb; s.maxSteps = 4000; }
        set_case(i, Json().num("i", i).str("phase", "c13").num("producers", nprod).num("pushes", npush).num("seed", (long long)g_opts.seed).done());
        Polling::Epoll poller;
        PollableQueue<Item> q;
        q.bind(poller);
        int efd = (int)q.tag().value();
        std::atomic<int> producersDone{0};
        std::vector<Item> popped;
        bool consumerSawIdleWithItems = false;
        std::vector<std::function<void()>> bodies;
        for (int p = 0; p < nprod; p++) bodies.push_back([&, p] { for (int k = 0; k < npush; k++) q.push(Item{p, k}); producersDone++; });
        bodies.push_back([&] {
            for (;;) {
                // the event loop: sleeps until the queue's descriptor is readable; gives up only when no producer is left
                bool woke;
                if (g_coop) woke = coop::wait_until([&] { return readable(efd) || producersDone.load() == nprod; }, 61);
                else { while (!readable(efd) && producersDone.load() != nprod) std::this_thread::yield(); woke = true; }
                (void)woke;
                if (!readable(efd)) break;    // nothing will ever wake the loop again
                for (;;) {                    // the framework's pattern: pop until empty
                    auto e = q.popSafe();
                    if (!e) break;
                    popped.push_back(*e);
                }
            }
        });
        run_bodies(s, bodies, seed);
        g_evals++;
        std::string shape = std::to_string(nprod) + "x" + std::to_string(npush);
        count("schedules_" + shape);
        if (g_coop && s.overrun) { count("inconclusive_step_bound"); q.unbind(poller); return; }
        // verdict
        std::string sym;
        std::map<int, int> nextSeq; std::set<std::pair<int, int>> seen;
        for (auto& it : popped) {
            if (!seen.insert({it.prod, it.seq}).second) sym = "item-popped-twice";
            if (it.seq != nextSeq[it.prod]) { if (sym.empty()) sym = "producer-order-broken"; }
            nextSeq[it.prod] = it.seq + 1;
        }
        if (sym.empty() && (int)popped.size() < nprod * npush) {
            // consumer is idle (left its loop because the descriptor was not readable and producers are done)
            bool still = !q.empty();
            sym = still && !readable(efd) ? "missed-wakeup" : "item-lost";
        }
        (void)consumerSawIdleWithItems;
        if (g_coop && s.stuck && sym.empty()) sym = "deadlock";
        if (g_coop) g_distinct.add(shape + "#" + std::to_string(coop::trace_hash(s))); else g_distinct.add(shape + "#" + std::to_string(i % 4096));
        if (!sym.empty())
            violation("c13:" + sym, shape + " producers x pushes: " + sym + " (popped " + std::to_string(popped.size()) + " of " + std::to_string(nprod * npush) + ")" + (g_coop ? " under schedule " + coop::trace_text(s, 160) : ""),
                      Json().num("i", i).num("seed", (long long)g_opts.seed).str("shape", shape).str("mode", prefix ? "coop-systematic" : g_coop ? "coop" : "free").str("schedule", g_coop ? coop::trace_text(s) : "").done());
        if (g_coop && g_samples_left > 0 && (i % 997) == 13) { g_samples_left--; sample(Json().str("shape", shape).str("schedule", coop::trace_text(s, 200)).done()); }
        // drain what is left so that destruction is clean
        for (;;) { auto e = q.popSafe(); if (!e) break; }
        q.unbind(poller);
    };
    if (g_coop && g_opts.mode == "dfs") {
        // systematic: every schedule of the shape with at most pb preemptions (a switch away from a thread that could go on), depth-first
        // by replaying a prefix of choices; bounded by --cases schedules per shape, and the evidence says whether the tree was exhausted
        static const int SHAPES[][2] = {{1, 1}, {1, 2}, {2, 1}, {1, 3}, {2, 2}, {3, 1}, {2, 3}, {3, 2}};
        for (int sh = g_opts.shard; sh < 8; sh += g_opts.nshards) {
            int nprod = SHAPES[sh][0], npush = SHAPES[sh][1]; std::string shape = std::to_string(nprod) + "x" + std::to_string(npush);
            std::vector<int> prefix; long done = 0; bool exhausted = false;
            for (;;) {
                one(1000000L * (sh + 1) + done, g_opts.seed, nprod, npush, 2, &prefix);
                done++;
                if (s.dfsDiverged) count("systematic_runs_that_did_not_repeat_their_prefix");
                std::vector<int> next; if (!s.next_prefix(next)) { exhausted = true; break; }
                prefix.swap(next);
                if (done >= cases) break;
            }
            count("systematic_schedules_" + shape, done); count(std::string(exhausted ? "systematic_tree_exhausted_" : "systematic_tree_cut_at_budget_") + shape + "_preemptions_" + std::to_string(pb));
        }
        return;
    }
    for (long i = g_opts.shard; i < cases * g_opts.nshards; i += g_opts.nshards) {
        if (i <= g_skip) continue;
        if (!g_coop && ((i / g_opts.nshards) % 64) == 0) emit(Json().str("t", "progress").num("i", i).num("stride", 64L * g_opts.nshards).done());
        uint64_t seed = g_opts.seed * 1000003ull + (uint64_t)i;
        Rng r(seed);
        int nprod = r.range(1, 3), npush = r.range(1, 3);
        // free-running storm rounds: many pushes per producer, so that two producers really are inside push() at the same time
        // (the cooperative scheduler only switches at hooks; a window between two un-hooked instructions needs real parallelism)
        if (!g_coop && ((i / g_opts.nshards) % 256) == 3) { nprod = 3; npush = (int)g_opts.num("storm", 2000); }
        one(i, seed, nprod, npush, (i % 3) == 0 ? 1 : 0, nullptr);
    }
}

// ------------------------------------------------------------------ C11 with the inputs of a combinator settled by different threads
// (free-running only: whenAll/whenAny have no yield hooks; the windows are widened by a value type whose copy takes a while, and the
// thread sanitizer sees unordered accesses to the shared result slots whatever the timing)
struct SlowVal {
    int v = -1;
    SlowVal() = default; explicit SlowVal(int x) : v(x) {}
    SlowVal(const SlowVal& o) : v(o.v) { pause(); }
    SlowVal(SlowVal&& o) noexcept : v(o.v) {}
    SlowVal& operator=(const SlowVal& o) { pause(); v = o.v; return *this; }
    SlowVal& operator=(SlowVal&& o) noexcept { v = o.v; return *this; }
    static void pause() { if (g_coop) return; double end = now_s() + 15e-6; while (now_s() < end) { } }
};
static void run_c11mt(long cases) {
    for (long i = g_opts.shard; i < cases * g_opts.nshards; i += g_opts.nshards) {
        if (i <= g_skip) continue;
        if (((i / g_opts.nshards) % 64) == 0) emit(Json().str("t", "progress").num("i", i).num("stride", 64L * g_opts.nshards).done());
        int sc = (int)(i % 6);
        uint64_t seed = g_opts.seed * 1000003ull + (uint64_t)i;
        set_case(i, Json().num("i", i).str("phase", "c11mt").num("scenario", sc).num("seed", (long long)g_opts.seed).done());
        std::string name, sym; std::atomic<int> ok{0}, rej{0}, threw{0};
        auto settle = [&](std::function<void()> f) { return [&threw, f] { try { f(); } catch (...) { threw++; } }; };
        switch (sc) {
        case 0: case 1: {   // variadic all-of, 2 or 3 inputs, each fulfilled by its own thread
            int n = sc == 0 ? 2 : 3; name = "all-of-" + std::to_string(n) + "-inputs-" + std::to_string(n) + "-threads";
            std::vector<Async::Deferred<SlowVal>> d((size_t)n); std::vector<Async::Promise<SlowVal>> p;
            for (int k = 0; k < n; k++) p.emplace_back([&, k](Async::Deferred<SlowVal> dd) { d[(size_t)k] = std::move(dd); });
            int got[3] = {-7, -7, -7};
            if (n == 2) Async::whenAll(p[0], p[1]).then([&](const std::tuple<SlowVal, SlowVal>& t) { ok++; got[0] = std::get<0>(t).v; got[1] = std::get<1>(t).v; }, [&](std::exception_ptr) { rej++; });
            else Async::whenAll(p[0], p[1], p[2]).then([&](const std::tuple<SlowVal, SlowVal, SlowVal>& t) { ok++; got[0] = std::get<0>(t).v; got[1] = std::get<1>(t).v; got[2] = std::get<2>(t).v; }, [&](std::exception_ptr) { rej++; });
            std::vector<std::function<void()>> bodies; for (int k = 0; k < n; k++) bodies.push_back(settle([&, k] { d[(size_t)k].resolve(SlowVal(100 + k)); }));
            run_free(bodies, seed);
            if (ok != 1 || rej != 0) sym = ok > 1 ? "fulfil-continuation-ran-twice" : "fulfil-continuation-lost";
            else for (int k = 0; k < n; k++) if (got[k] != 100 + k) sym = "wrong-value-in-slot-" + std::to_string(k);
            break; }
        case 2: {   // iterator all-of over 3 inputs, 3 threads: results in argument order
            name = "all-of-iterator-3-inputs-3-threads";
            std::vector<Async::Deferred<SlowVal>> d(3); std::vector<Async::Promise<SlowVal>> p;
            for (int k = 0; k < 3; k++) p.emplace_back([&, k](Async::Deferred<SlowVal> dd) { d[(size_t)k] = std::move(dd); });
            std::vector<int> got;
            Async::whenAll(p.begin(), p.end()).then([&](const std::vector<SlowVal>& v) { ok++; for (auto& x : v) got.push_back(x.v); }, [&](std::exception_ptr) { rej++; });
            run_free({settle([&] { d[0].resolve(SlowVal(100)); }), settle([&] { d[1].resolve(SlowVal(101)); }), settle([&] { d[2].resolve(SlowVal(102)); })}, seed);
            if (ok != 1 || rej != 0) sym = ok > 1 ? "fulfil-continuation-ran-twice" : "fulfil-continuation-lost";
            else if (got != std::vector<int>{100, 101, 102}) sym = "wrong-values-or-order";
            break; }
        case 3: {   // any-of, both inputs fulfilled at once: exactly one outcome, nothing thrown into the late settler
            name = "any-of-2-inputs-2-threads";
            std::vector<Async::Deferred<int>> d(2); std::vector<Async::Promise<int>> p;
            for (int k = 0; k < 2; k++) p.emplace_back([&, k](Async::Deferred<int> dd) { d[(size_t)k] = std::move(dd); });
            std::atomic<int> val{-1};
            Async::whenAny(p[0], p[1]).then([&](const Async::Any& a) { ok++; val = a.cast<int>(); }, [&](std::exception_ptr) { rej++; });
            run_free({settle([&] { d[0].resolve(7); }), settle([&] { d[1].resolve(8); })}, seed);
            if (ok != 1 || rej != 0) sym = ok > 1 ? "fulfil-continuation-ran-twice" : "fulfil-continuation-lost"; else if (val != 7 && val != 8) sym = "wrong-value";
            break; }
        case 4: {   // all-of: one input fulfilled, the other rejected, at once: rejection exactly once, no fulfilment
            name = "all-of-fulfil|reject";
            std::vector<Async::Deferred<SlowVal>> d(2); std::vector<Async::Promise<SlowVal>> p;
            for (int k = 0; k < 2; k++) p.emplace_back([&, k](Async::Deferred<SlowVal> dd) { d[(size_t)k] = std::move(dd); });
            Async::whenAll(p[0], p[1]).then([&](const std::tuple<SlowVal, SlowVal>&) { ok++; }, [&](std::exception_ptr) { rej++; });
            run_free({settle([&] { d[0].resolve(SlowVal(1)); }), settle([&] { d[1].reject(TestExc(4)); })}, seed);
            if (ok != 0) sym = "fulfil-continuation-spurious"; else if (rej != 1) sym = rej > 1 ? "reject-continuation-ran-twice" : "reject-continuation-lost";
            break; }
        default: {  // any-of: a fulfilment and a rejection at once: exactly one continuation, exactly once
            name = "any-of-fulfil|reject";
            std::vector<Async::Deferred<int>> d(2); std::vector<Async::Promise<int>> p;
            for (int k = 0; k < 2; k++) p.emplace_back([&, k](Async::Deferred<int> dd) { d[(size_t)k] = std::move(dd); });
            Async::whenAny(p[0], p[1]).then([&](const Async::Any&) { ok++; }, [&](std::exception_ptr) { rej++; });
            run_free({settle([&] { d[0].resolve(7); }), settle([&] { d[1].reject(TestExc(5)); })}, seed);
            if (ok + rej != 1) sym = ok + rej > 1 ? "two-outcomes-delivered" : "no-outcome-delivered";
            break; }
        }
        if (sym.empty() && threw) sym = "settle-throws";
        g_evals++;
        count("rounds_" + name);
        g_distinct.add(name + "#" + std::to_string(i % 1024));
        if (!sym.empty()) violation("c11:mt:" + name + ":" + sym, "inputs of a combinator settled by different threads: " + name + ": " + sym, Json().num("i", i).num("scenario", sc).num("seed", (long long)g_opts.seed).done());
    }
}

int main(int argc, char** argv) {
    g_opts = parse_opts(argc, argv);
    install_handlers();
    g_coop = g_opts.mode != "free";   // "dfs" = cooperative scheduler in systematic mode
    g_spin_max = (int)g_opts.num("spin", 50);
    std::string prop = g_opts.get("prop", "c12");
    g_skip = g_opts.num("skip", -1);
    if (prop == "c12") run_c12(g_opts.cases); else if (prop == "c11mt") { g_coop = false; run_c11mt(g_opts.cases); } else run_c13(g_opts.cases);
    g_distinct.flush();
    Json s; s.str("t", "sum").num("evaluations", g_evals);
    Json c; for (auto& kv : g_counts) c.num(kv.first, kv.second);
    s.raw("counts", c.done());
    emit(s.done());
    return 0;
}
