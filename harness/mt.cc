// C09: multi-threaded serving is race-free and shuts down cleanly.
// Built with -fsanitize=thread.  w workers x c keep-alive clients x r requests against a shared
// Rest::Router (routes under every method table, 405 and 404 paths, handlers that answer from a
// foreign thread); every response's tag must be the function of its request and no request may be
// answered twice; shutdown() is fired at seeded points (idle, with connections open, mid-load,
// with slow handlers in flight, twice) and must return, stop the acceptor and end all threads.
#define LV_DEFINE_INTERPOSERS 1   // (plain flavour only: the storm stage uses the slow-acceptor fault point; under ThreadSanitizer live.h leaves them out)
#include "live.h"
#include <pistache/endpoint.h>
#include <pistache/http.h>
#include <pistache/router.h>
#include <condition_variable>
#include <deque>
#include <functional>
#include <dirent.h>
#include <sys/resource.h>

using namespace Pistache;
using namespace vf;

static Opts g_opts;
static Distinct g_distinct;
static long g_evals = 0;
static std::map<std::string, long> g_counts;
static std::mutex g_cm;
static long g_samples_left = 5;
static void count(const std::string& k, long n = 1) { std::lock_guard<std::mutex> g(g_cm); g_counts[k] += n; }
static std::mutex g_vm;
static void viol(const std::string& key, const std::string& what, const std::string& wt) { std::lock_guard<std::mutex> g(g_vm); violation(key, what, wt); }

static bool wait_for(std::function<bool()> f, double sec) { double end = lv::now() + sec; while (lv::now() < end) { if (f()) return true; lv::msleep(2); } return f(); }
static std::string tag_of(const std::string& method, const std::string& path, const std::string& body) {
    return "T[" + method + " " + path + " #" + std::to_string(fnv(body) % 100000) + "]";
}
// responder thread: handlers may hand their ResponseWriter over and get answered from here
struct Responder {
    std::mutex m; std::condition_variable cv; std::deque<std::pair<std::string, std::shared_ptr<Http::ResponseWriter>>> q; bool stop = false; std::thread th;
    void start() { th = std::thread([this] { for (;;) { std::pair<std::string, std::shared_ptr<Http::ResponseWriter>> it; { std::unique_lock<std::mutex> lk(m); cv.wait(lk, [&] { return stop || !q.empty(); }); if (q.empty()) return; it = std::move(q.front()); q.pop_front(); }
            // (a response for a client that has left in the meantime: the writer reports it by an exception or a rejected promise)
            if (it.first.find("abandon") != std::string::npos) lv::msleep(3);
            try { it.second->send(Http::Code::Ok, it.first); } catch (const std::exception&) { } } }); }
    void push(std::string body, Http::ResponseWriter w) { { std::lock_guard<std::mutex> g(m); q.emplace_back(std::move(body), std::make_shared<Http::ResponseWriter>(std::move(w))); } cv.notify_one(); }
    void finish() { { std::lock_guard<std::mutex> g(m); stop = true; } cv.notify_all(); if (th.joinable()) th.join(); }
};
static Responder* g_responder = nullptr;
static std::atomic<int> g_slow_ms{0};
static std::atomic<long> g_handled{0};
static std::atomic<bool> g_short_timeouts{false};   // the endpoint of this configuration has 1 s read time-outs (shutdown mode 6)
// a request that stays in flight until the harness lets it go (shutdown mode 8), and a handler that shuts the endpoint down itself (mode 9)
static std::mutex g_gate_m; static std::condition_variable g_gate_cv; static bool g_gate_open = false;
static std::atomic<int> g_holding{0}, g_hold_timed_out{0}, g_quit_done{0}, g_quit_threw{0};
static Http::Endpoint* g_ep = nullptr;

static Rest::Route::Result handle(const Rest::Request& req, Http::ResponseWriter resp, const char* method) {
    g_handled++;
    std::string t = tag_of(method, req.resource(), req.body());
    if (req.resource().find("/slow") == 0 && g_slow_ms.load() > 0) lv::msleep(g_slow_ms.load());
    if (req.resource().find("/foreign") == 0 && g_responder) { g_responder->push(t, std::move(resp)); return Rest::Route::Result::Ok; }
    resp.send(Http::Code::Ok, t);
    return Rest::Route::Result::Ok;
}
static std::shared_ptr<Rest::Router> make_router() {
    auto r = std::make_shared<Rest::Router>();
    auto reg = [&](Http::Method m, const char* mn) {
        for (const char* p : {"/a", "/a/:x", "/foreign/:x", "/slow/:x", "/b/*/c"}) r->addRoute(m, p, [mn](const Rest::Request req, Http::ResponseWriter w) { return handle(req, std::move(w), mn); });
    };
    reg(Http::Method::Get, "GET"); reg(Http::Method::Post, "POST"); reg(Http::Method::Put, "PUT"); reg(Http::Method::Delete, "DELETE");
    reg(Http::Method::Patch, "PATCH"); reg(Http::Method::Options, "OPTIONS");
    r->addRoute(Http::Method::Head, "/only-head", [](const Rest::Request req, Http::ResponseWriter w) { return handle(req, std::move(w), "HEAD"); });
    // a large answer (n KiB): the client that asked for it leaves while most of it is still queued
    r->addRoute(Http::Method::Get, "/blob/:n", [](const Rest::Request req, Http::ResponseWriter w) { g_handled++; size_t n = (size_t)req.param(":n").as<int>() * 1024; w.send(Http::Code::Ok, std::string(n, 'b')); return Rest::Route::Result::Ok; });
    r->addRoute(Http::Method::Get, "/hold/:x", [](const Rest::Request req, Http::ResponseWriter w) { g_handled++; g_holding++;
        { std::unique_lock<std::mutex> lk(g_gate_m); if (!g_gate_cv.wait_for(lk, std::chrono::seconds(20), [] { return g_gate_open; })) g_hold_timed_out++; }
        try { w.send(Http::Code::Ok, tag_of("GET", req.resource(), "")); } catch (const std::exception&) { } return Rest::Route::Result::Ok; });
    r->addRoute(Http::Method::Get, "/quit", [](const Rest::Request req, Http::ResponseWriter w) { g_handled++;
        try { if (g_ep) g_ep->shutdown(); } catch (const std::exception& e) { g_quit_threw++; }
        try { w.send(Http::Code::Ok, tag_of("GET", req.resource(), "")); } catch (const std::exception&) { } g_quit_done++; return Rest::Route::Result::Ok; });
    r->addRoute(Http::Method::Get, "/only-get", [](const Rest::Request req, Http::ResponseWriter w) { return handle(req, std::move(w), "GET"); });
    return r;
}
struct ClientStats { long ok = 0, bad = 0, incomplete = 0; };
// one keep-alive client; returns when done or when the server goes away
static void client_loop(int port, int id, int nreq, uint64_t seed, bool tolerateShutdown, ClientStats& st, const std::string& cfg) {
    Rng r(seed);
    lv::Conn c; if (!c.open_to(port)) { st.incomplete++; return; }
    static const char* MT[] = {"GET", "POST", "PUT", "DELETE", "PATCH", "OPTIONS"};
    std::string buf; size_t off = 0;
    for (int k = 0; k < nreq; k++) {
        // a response nobody asked for = a request answered twice
        { struct pollfd p{c.fd, POLLIN, 0}; if (::poll(&p, 1, 0) > 0) { std::string extra; bool eof = false; c.read_some(extra, 0, 1 << 16, &eof); if (!extra.empty()) { viol("c09:unsolicited-response", "client " + std::to_string(id) + " received bytes without an outstanding request: " + extra.substr(0, 60), Json().str("config", cfg).done()); st.bad++; return; } if (eof) { if (!tolerateShutdown) viol("c09:connection-dropped", "the server closed a keep-alive connection under load", Json().str("config", cfg).done()); st.incomplete++; return; } } }
        int w = r.range(0, 9);
        std::string method = MT[r.below(6)], path, body;
        int expect = 200; std::set<std::string> allow;
        if (w <= 3) path = "/a/" + std::to_string(id) + "x" + std::to_string(k);
        else if (w == 4) path = "/a";
        else if (w == 5) path = "/foreign/" + std::to_string(id) + "y" + std::to_string(k);
        else if (w == 6) path = "/b/" + std::to_string(k) + "/c";
        else if (w == 7) { path = "/only-get"; if (method != "GET") { expect = 405; } }
        else if (w == 8) { path = "/nothing/" + std::to_string(k); expect = 404; }
        else path = "/slow/" + std::to_string(k);
        // methods for which the router has no table at all
        if (r.chance(1, 6)) { method = r.chance(1, 2) ? "TRACE" : "CONNECT"; if (expect == 200) expect = 405; }
        if (method == "POST" || method == "PUT" || method == "PATCH") { int bl = r.range(0, 200); for (int j = 0; j < bl; j++) body += (char)('a' + r.below(26)); }
        std::string req = method + " " + path + " HTTP/1.1\r\nHost: x\r\nConnection: keep-alive\r\nContent-Length: " + std::to_string(body.size()) + "\r\n\r\n" + body;
        if (!c.send_all(req)) { if (!tolerateShutdown) viol("c09:connection-dropped", "send failed under load", Json().str("config", cfg).done()); st.incomplete++; return; }
        lv::HttpMsg m = lv::read_response(c, buf, off, (int)(15000 * lv::load_factor()));
        if (!m.complete) { if (!tolerateShutdown) viol("c09:no-response", "client " + std::to_string(id) + " request " + std::to_string(k) + " (" + method + " " + path + ") got no response: " + m.error, Json().str("config", cfg).str("request", method + " " + path).done()); st.incomplete++; return; }
        off += m.consumed;
        if (off > (1 << 20)) { buf.erase(0, off); off = 0; }
        // with 1 s read time-outs configured, a client thread that the machine keeps off the CPU for a second between two requests is timed out like any
        // idle connection: the 408 is the server's answer to the connection, not a wrong answer to this request (seen in a thorough run under a load of 60)
        if (m.status == 408 && g_short_timeouts.load()) { count("keep_alive_clients_timed_out_by_the_server"); st.incomplete++; return; }
        bool good = m.status == expect && (expect != 200 || m.body == tag_of(method, path, body));
        if (good && expect == 405) { good = m.header("Allow").find("GET") != std::string::npos; }
        if (expect == 405 && m.status == 405) count("responses_405");
        if (!good) { viol(std::string("c09:wrong-response:") + (m.status != expect ? "status" : "tag"), "client " + std::to_string(id) + " " + method + " " + path + ": status " + std::to_string(m.status) + " body '" + m.body.substr(0, 60) + "'", Json().str("config", cfg).str("request", method + " " + path).str("body", m.body.substr(0, 100)).done()); st.bad++; return; }
        st.ok++;
    }
}
// connection churn: short-lived connections opened and closed in a loop while others are served (accept/dispatch on the
// acceptor thread races with teardown on the workers)
static void churn_loop(int port, int id, int nconn, uint64_t seed, bool tolerateShutdown, ClientStats& st, const std::string& cfg) {
    Rng r(seed);
    for (int k = 0; k < nconn; k++) {
        lv::Conn c; if (!c.open_to(port)) { if (!tolerateShutdown) viol("c09:connect-refused-under-load", "connect failed while the server is up", Json().str("config", cfg).done()); st.incomplete++; return; }
        int nr = r.range(0, 2);
        if (r.chance(1, 3)) {
            // a client that leaves without waiting for its answer (the answer is written later, from the responder thread or after a
            // slow handler): whoever gets the same descriptor number next must not receive it
            std::string path = (r.chance(1, 2) ? "/foreign/abandon" : "/slow/abandon") + std::to_string(id) + "x" + std::to_string(k);
            c.send_all("GET " + path + " HTTP/1.1\r\nHost: x\r\nConnection: keep-alive\r\nContent-Length: 0\r\n\r\n");
            if (r.chance(1, 2)) c.rst_close(); else c.close_now();
            count("abandoned_requests");
            continue;
        }
        if (r.chance(1, 6)) {
            // asks for 512 KiB and leaves at once: the end of its input and the writability of its socket reach the worker in one event,
            // while the acceptor is busy handing the freed descriptor number to the next connection
            c.send_all("GET /blob/512 HTTP/1.1\r\nHost: x\r\nConnection: keep-alive\r\nContent-Length: 0\r\n\r\n");
            if (r.chance(1, 2)) { std::string t; c.read_some(t, 2, 4096); }
            if (r.chance(1, 2)) c.rst_close(); else c.close_now();
            count("abandoned_large_answers");
            continue;
        }
        std::string buf; size_t off = 0;
        for (int j = 0; j < nr; j++) {
            std::string path = "/a/churn" + std::to_string(id) + "x" + std::to_string(k) + "x" + std::to_string(j);
            if (!c.send_all("GET " + path + " HTTP/1.1\r\nHost: x\r\nConnection: keep-alive\r\nContent-Length: 0\r\n\r\n")) { st.incomplete++; return; }
            lv::HttpMsg m = lv::read_response(c, buf, off, (int)(15000 * lv::load_factor()));
            if (!m.complete) { if (!tolerateShutdown) viol("c09:no-response", "churn client " + std::to_string(id) + " got no response: " + m.error, Json().str("config", cfg).done()); st.incomplete++; return; }
            off += m.consumed;
            if (m.status == 408 && g_short_timeouts.load()) { count("keep_alive_clients_timed_out_by_the_server"); st.incomplete++; return; }
            if (m.status != 200 || m.body != tag_of("GET", path, "")) { viol("c09:wrong-response:tag", "churn client " + std::to_string(id) + ": status " + std::to_string(m.status) + " body '" + m.body.substr(0, 60) + "'", Json().str("config", cfg).done()); st.bad++; return; }
            st.ok++;
        }
        if (r.chance(1, 4)) c.rst_close(); else c.close_now();
    }
}
// a connection that goes silent (nothing sent, a partial head, or a partial body): with a 1 s read time-out it must get exactly
// one 408 and then be closed, whichever worker owns it and however many others expire in the same tick
static void idler_wait(lv::Conn& c, int id, int kind, const std::string& cfg) {
    std::string got; bool eof = false; double end = lv::now() + 8.0 * lv::load_factor();
    while (!eof && lv::now() < end) c.read_some(got, 100, 1 << 20, &eof);
    size_t n = 0; for (size_t p = got.find("HTTP/1.1 "); p != std::string::npos; p = got.find("HTTP/1.1 ", p + 1)) n++;
    std::string k = "kind" + std::to_string(kind);
    if (!eof) viol("c09:idle-connection-not-closed", "silent connection " + std::to_string(id) + " (" + k + ") still open 8 s after a 1 s time-out; received '" + got.substr(0, 40) + "'", Json().str("config", cfg).done());
    else if (n > 1) viol("c09:idle-connection-answered-twice", "silent connection " + std::to_string(id) + " (" + k + ") received " + std::to_string(n) + " responses: " + got.substr(0, 80), Json().str("config", cfg).done());
    else if (n == 1 && got.compare(0, 12, "HTTP/1.1 408") != 0) viol("c09:idle-connection-wrong-response", "silent connection " + std::to_string(id) + " received " + got.substr(0, 40), Json().str("config", cfg).done());
    else if (n == 0) viol("c09:idle-connection-closed-without-408", "silent connection " + std::to_string(id) + " (" + k + ") was closed without a response", Json().str("config", cfg).done());
    else count("idle_connections_timed_out_once");
}
// descriptor exhaustion: lower the soft limit to just above the highest open descriptor and plug the holes, so that accept4 fails (EMFILE)
struct FdExhaust {
    struct rlimit old{}; std::vector<int> plugs; bool on = false;
    void begin() {
        getrlimit(RLIMIT_NOFILE, &old);
        int maxfd = 2; { DIR* d = opendir("/proc/self/fd"); if (d) { while (dirent* e = readdir(d)) { int f = atoi(e->d_name); if (f > maxfd) maxfd = f; } closedir(d); } }
        struct rlimit lo = old; lo.rlim_cur = (rlim_t)maxfd + 1; setrlimit(RLIMIT_NOFILE, &lo);
        for (;;) { int f = dup(0); if (f < 0) break; plugs.push_back(f); }
        on = true;
    }
    void end() { if (!on) return; for (int f : plugs) ::close(f); plugs.clear(); setrlimit(RLIMIT_NOFILE, &old); on = false; }
};
static bool port_refuses(int port) { lv::Conn c; bool ok = c.open_to(port); return !ok; }

static void run_config(long idx, int workers, int clients, int nreq, int shutdownMode, uint64_t seed) {
    // shutdownMode: 0 after load (idle, connections closed), 1 idle with connections open, 2 mid-load, 3 slow handlers in flight, 4 before any load, 5 twice,
    // 6 after silent connections on every worker ran into a 1 s read time-out, 7 while accept fails for lack of descriptors,
    // 8 while requests are in flight whose handlers do not finish before shutdown() has returned, 9 from inside a handler (a worker thread),
    // 10 after the load, on an endpoint served by the blocking serve() on the thread that created and initialised it
    std::string cfg = "workers=" + std::to_string(workers) + " clients=" + std::to_string(clients) + " requests=" + std::to_string(nreq) + " shutdown=" + std::to_string(shutdownMode);
    set_case(idx, Json().num("i", idx).str("phase", "c09").str("config", cfg).done());
    int threads0 = lv::thread_count();
    Responder responder; responder.start(); g_responder = &responder;
    g_slow_ms = shutdownMode == 3 ? 300 : 2;
    auto router = make_router();
    auto opts = Http::Endpoint::options().threads(workers).flags(Tcp::Options::ReuseAddr);
    if (shutdownMode == 6) opts.headerTimeout(std::chrono::seconds(1)).bodyTimeout(std::chrono::seconds(1));
    g_short_timeouts = shutdownMode == 6;
    Http::Endpoint* ep = nullptr; int port = 0; std::thread serveThread;
    if (shutdownMode == 10) {
        // the blocking way of serving: ONE thread creates the endpoint, initialises it and then runs the accept loop itself (Endpoint::serve());
        // the load and, later, shutdown() come from other threads
        { int s = ::socket(AF_INET, SOCK_STREAM, 0); struct sockaddr_in a{}; a.sin_family = AF_INET; a.sin_addr.s_addr = htonl(INADDR_LOOPBACK); a.sin_port = 0; ::bind(s, (struct sockaddr*)&a, sizeof a); socklen_t l = sizeof a; getsockname(s, (struct sockaddr*)&a, &l); port = ntohs(a.sin_port); ::close(s); }
        std::atomic<Http::Endpoint*> pub{nullptr};
        serveThread = std::thread([&, port] { auto* e = new Http::Endpoint(Address(Ipv4::loopback(), Port((uint16_t)port))); e->init(opts); e->setHandler(Rest::Router::handler(router)); pub.store(e); try { e->serve(); } catch (const std::exception&) { } });
        wait_for([&] { return pub.load() != nullptr; }, 10.0); ep = pub.load();
        wait_for([&] { lv::Conn c; return c.open_to(port); }, 10.0 * lv::load_factor());
        count("configs_served_by_the_blocking_serve");
    } else {
        ep = new Http::Endpoint(Address(Ipv4::loopback(), Port(0)));
        ep->init(opts);
        ep->setHandler(Rest::Router::handler(router));
        ep->serveThreaded();
        port = ep->getPort();
    }
    {   // connections for every worker at once, the moment the endpoint is up: the workers have only just entered their loops
        std::vector<std::unique_ptr<lv::Conn>> early; for (int k = 0; k < 2 * workers + 1; k++) { early.emplace_back(new lv::Conn()); if (!early.back()->open_to(port)) { early.pop_back(); continue; } early.back()->send_all("GET /a/early" + std::to_string(k) + " HTTP/1.1\r\nHost: x\r\nConnection: keep-alive\r\nContent-Length: 0\r\n\r\n"); }
        for (size_t k = 0; k < early.size(); k++) { std::string b; lv::HttpMsg m = lv::read_response(*early[k], b, 0, (int)(10000 * lv::load_factor()));
            if (m.complete && !(m.status == 200 && m.body.rfind("T[GET /a/early", 0) == 0)) viol("c09:wrong-response:tag", "a connection opened the moment the endpoint was up got status " + std::to_string(m.status) + " body '" + m.body.substr(0, 60) + "'", Json().str("config", cfg).done());
            else if (!m.complete && shutdownMode != 4) viol("c09:no-response", "a connection opened the moment the endpoint was up got no response: " + m.error, Json().str("config", cfg).done()); }
        count("early_connections", (long)early.size());
    }
    std::vector<std::thread> th; std::vector<ClientStats> stats((size_t)clients);
    bool tolerate = shutdownMode >= 2 && shutdownMode != 4 && shutdownMode != 7 && shutdownMode != 10;   // (mode 6: a keep-alive client may itself be timed out under load)
    std::vector<std::unique_ptr<lv::Conn>> idleConns;
    if (shutdownMode != 4) for (int k = 0; k < clients; k++) th.emplace_back([&, k] { client_loop(port, k, nreq, seed * 131 + (uint64_t)k, tolerate, stats[(size_t)k], cfg); });
    int churners = shutdownMode == 4 ? 0 : 2;
    std::vector<ClientStats> cstats((size_t)churners);
    for (int k = 0; k < churners; k++) th.emplace_back([&, k] { churn_loop(port, 100 + k, nreq, seed * 977 + (uint64_t)k, tolerate, cstats[(size_t)k], cfg); });
    if (shutdownMode == 1) { for (int k = 0; k < 3; k++) { idleConns.emplace_back(new lv::Conn()); idleConns.back()->open_to(port); } }
    if (shutdownMode == 6) {
        // silent connections on every worker, opened together so that they expire in the same tick of the idle scan
        int ni = 2 * workers + 2; std::vector<std::unique_ptr<lv::Conn>> idlers; std::vector<int> kinds;
        for (int k = 0; k < ni; k++) { idlers.emplace_back(new lv::Conn()); if (!idlers.back()->open_to(port)) { idlers.pop_back(); continue; } kinds.push_back(k % 3); }
        for (size_t k = 0; k < idlers.size(); k++) { if (kinds[k] == 1) idlers[k]->send_all("GET /a/idle HTTP/1.1\r\nHo"); else if (kinds[k] == 2) idlers[k]->send_all("POST /a/idle HTTP/1.1\r\nHost: x\r\nContent-Length: 10\r\n\r\nabc"); }
        std::vector<std::thread> it; for (size_t k = 0; k < idlers.size(); k++) it.emplace_back([&, k] { idler_wait(*idlers[k], (int)k, kinds[k], cfg); });
        for (auto& t : it) t.join();
        count("idle_connections", (long)idlers.size());
    }
    FdExhaust exhaust; lv::Conn pendingConn;
    if (shutdownMode == 2 || shutdownMode == 3) { Rng r(seed); lv::msleep(r.range(5, 120)); }
    else for (auto& t : th) t.join();
    if (shutdownMode == 7) {
        // shutdown while accept fails: a connection is pending on the listening socket and the process is out of descriptors
        pendingConn.fd = ::socket(AF_INET, SOCK_STREAM | SOCK_NONBLOCK, 0);
        exhaust.begin();
        struct sockaddr_in a{}; a.sin_family = AF_INET; a.sin_port = htons((uint16_t)port); a.sin_addr.s_addr = htonl(INADDR_LOOPBACK);
        ::connect(pendingConn.fd, (struct sockaddr*)&a, sizeof a);
        Rng r(seed); lv::msleep(r.range(5, 60));
        count("shutdowns_with_failing_accept");
    }
    std::vector<std::unique_ptr<lv::Conn>> held;
    if (shutdownMode == 8) {
        { std::lock_guard<std::mutex> g(g_gate_m); g_gate_open = false; } g_holding = 0; g_hold_timed_out = 0;
        for (int k = 0; k < workers + 1; k++) { held.emplace_back(new lv::Conn()); if (held.back()->open_to(port)) held.back()->send_all("GET /hold/h" + std::to_string(k) + " HTTP/1.1\r\nHost: x\r\n\r\n"); }
        wait_for([&] { return g_holding.load() >= 1; }, 5.0 * lv::load_factor());
        lv::msleep(30);
        count("requests_held_in_flight_at_shutdown", g_holding.load());
    }
    if (shutdownMode == 9) { g_ep = ep; g_quit_done = 0; g_quit_threw = 0; }
    // shutdown + destruction must return: a watchdog turns a hang into a witness
    std::atomic<bool> done{false};
    std::thread dog([&] { double end = lv::now() + 30.0 * lv::load_factor(); while (!done.load() && lv::now() < end) lv::msleep(20); if (!done.load()) { viol("c09:shutdown-does-not-return:mode" + std::to_string(shutdownMode), "shutdown()/destruction did not return within the bound (" + cfg + ")", Json().str("config", cfg).done()); g_distinct.flush(); _exit(3); } });
    if (shutdownMode == 9) {
        // the handler of GET /quit calls shutdown() on its worker thread; destruction follows from here once it has returned
        lv::Conn q; if (q.open_to(port)) q.send_all("GET /quit HTTP/1.1\r\nHost: x\r\n\r\n");
        bool fin = wait_for([&] { return g_quit_done.load() > 0; }, 20.0 * lv::load_factor());
        if (!fin) viol("c09:shutdown-does-not-return:from-a-handler", "shutdown() called from inside a request handler did not return (" + cfg + ")", Json().str("config", cfg).done());
        else if (g_quit_threw.load()) viol("c09:shutdown-throws:from-a-handler", "shutdown() called from inside a request handler threw (" + cfg + ")", Json().str("config", cfg).done());
        else count("shutdowns_from_a_handler");
        g_ep = nullptr;
        if (!fin) { g_distinct.flush(); _exit(3); }
    }
    else ep->shutdown();
    if (shutdownMode == 8) {
        // shutdown() has returned: the held handlers must still be waiting (their gate opens only now)
        if (g_holding.load() > 0 && g_hold_timed_out.load() > 0) viol("c09:shutdown-waits-for-requests-in-flight", "shutdown() returned only after the handlers of the requests in flight had given up waiting (20 s): it does not return while a handler is running (" + cfg + ")", Json().str("config", cfg).done());
        { std::lock_guard<std::mutex> g(g_gate_m); g_gate_open = true; } g_gate_cv.notify_all();
    }
    if (shutdownMode == 5) ep->shutdown();
    if (serveThread.joinable()) serveThread.join();   // (serve() returns once the acceptor has been told to stop)
    delete ep;
    done = true; dog.join();
    held.clear();
    exhaust.end(); pendingConn.close_now();
    for (auto& t : th) if (t.joinable()) t.join();
    idleConns.clear();
    responder.finish(); g_responder = nullptr;
    g_evals++;
    long ok = 0, bad = 0, inc = 0; for (auto& s : stats) { ok += s.ok; bad += s.bad; inc += s.incomplete; }
    count("responses_checked", ok); count("configs");
    if (!tolerate && shutdownMode != 4 && ok != (long)clients * nreq && bad == 0) viol("c09:requests-unanswered", cfg + ": " + std::to_string(ok) + " of " + std::to_string((long)clients * nreq) + " requests answered", Json().str("config", cfg).done());
    // the acceptor is stopped and all framework threads are gone
    bool refused = false; for (int k = 0; k < 50 && !refused; k++) { refused = port_refuses(port); if (!refused) lv::msleep(20); }
    if (!refused) viol("c09:port-still-accepting:mode" + std::to_string(shutdownMode), "the port still accepts connections after shutdown and destruction (" + cfg + ")", Json().str("config", cfg).done());
    bool threadsBack = false; for (int k = 0; k < 150 && !threadsBack; k++) { threadsBack = lv::thread_count() <= threads0; if (!threadsBack) lv::msleep(20); }
    if (!threadsBack) viol("c09:threads-left-after-shutdown:mode" + std::to_string(shutdownMode), std::to_string(lv::thread_count() - threads0) + " threads above the baseline after shutdown (" + cfg + ")", Json().str("config", cfg).done());
    g_distinct.add(std::to_string(workers) + "|" + std::to_string(clients) + "|" + std::to_string(shutdownMode));
    if (g_samples_left > 0) { g_samples_left--; sample(Json().str("config", cfg).num("responses_checked", ok).done()); }
}

int main(int argc, char** argv) {
    g_opts = parse_opts(argc, argv);
#if LV_INTERPOSE
    lv::ip().pollDelayMaxMs = (int)g_opts.num("poll-delay", 0);   // see live.h: loop threads come back to their pollers late
#endif
    install_handlers(g_opts.get("prop", "c09") == "storm");   // (the storm stage runs without a sanitizer: a crash must name the round)
    // warm-up: runtime helper threads (sanitizer background thread, resolver) exist before the baseline is taken
    { std::thread t([] {}); t.join(); lv::Conn c; c.open_to(1); lv::msleep(50); }
    Rng r(g_opts.seed * 4001 + (uint64_t)g_opts.shard);
    long skip = g_opts.num("skip", -1);
    if (g_opts.get("prop", "c09") == "storm") {
        // connection storm: many short-lived connections, a third of which leave without waiting for their answer; every answer that
        // IS read must be the function of the request sent on that connection (descriptor numbers are reused at a high rate)
        for (long n = 0; n < g_opts.cases; n++) {
            long idx = g_opts.shard * 100000L + n;
            emit(Json().str("t", "progress").num("i", idx).num("stride", 1).done());
            if (idx <= skip) continue;
            int workers = (int)std::vector<int>{1, 2, 4}[r.below(3)]; int churners = r.range(4, 10); int nconn = (int)g_opts.num("stormconns", 300);
            std::string cfg = "storm workers=" + std::to_string(workers) + " churners=" + std::to_string(churners) + " connections=" + std::to_string(nconn);
            set_case(idx, Json().num("i", idx).str("phase", "c09-storm").str("config", cfg).done());
            Responder responder; responder.start(); g_responder = &responder; g_slow_ms = 2;
            auto router = make_router();
            auto* ep = new Http::Endpoint(Address(Ipv4::loopback(), Port(0)));
            ep->init(Http::Endpoint::options().threads(workers).flags(Tcp::Options::ReuseAddr));
            ep->setHandler(Rest::Router::handler(router)); ep->serveThreaded();
            int port = ep->getPort(); uint64_t seed = r.next();
            // connection burst while every worker is away: 3 slow requests per worker keep the workers in their handlers for 400 ms; meanwhile
            // 24 connections per worker are opened at once (they pile up in the workers' queues of new peers); afterwards every one of them
            // sends one tagged request and has to get its own answer
            {
                g_slow_ms = 400;
                std::vector<std::unique_ptr<lv::Conn>> slow, burst; std::vector<std::string> sbuf;
                for (int k = 0; k < 3 * workers; k++) { slow.emplace_back(new lv::Conn()); if (slow.back()->open_to(port)) slow.back()->send_all("GET /slow/s" + std::to_string(k) + " HTTP/1.1\r\nHost: x\r\n\r\n"); }
                lv::msleep(60);
                for (int k = 0; k < 24 * workers; k++) { burst.emplace_back(new lv::Conn()); if (!burst.back()->open_to(port)) burst.pop_back(); }
                for (auto& c : slow) { std::string b; lv::read_response(*c, b, 0, (int)(5000 * lv::load_factor())); }
                g_slow_ms = 2;
                for (size_t k = 0; k < burst.size(); k++) burst[k]->send_all("GET /a/burst" + std::to_string(k) + " HTTP/1.1\r\nHost: x\r\n\r\n");
                long unanswered = 0, wrong = 0; std::string firstBad;
                for (size_t k = 0; k < burst.size(); k++) { std::string b; lv::HttpMsg m = lv::read_response(*burst[k], b, 0, (int)(4000 * lv::load_factor()));
                    if (!m.complete) { unanswered++; if (firstBad.empty()) firstBad = "connection " + std::to_string(k) + " of the burst: no answer"; }
                    else if (m.status != 200 || m.body != tag_of("GET", "/a/burst" + std::to_string(k), "")) { wrong++; if (firstBad.empty()) firstBad = "connection " + std::to_string(k) + ": status " + std::to_string(m.status) + " body '" + m.body.substr(0, 40) + "'"; } }
                count("burst_connections", (long)burst.size());
                if (unanswered) viol("c09:burst-connection-not-served", cfg + ": " + std::to_string(unanswered) + " of " + std::to_string(burst.size()) + " connections opened while every worker was in a handler were never answered (" + firstBad + ")", Json().str("config", cfg).num("unanswered", unanswered).num("burst", (long long)burst.size()).done());
                else if (wrong) viol("c09:wrong-response:burst", cfg + ": " + firstBad, Json().str("config", cfg).done());
            }
            // slow acceptor: the acceptor thread is delayed (interposed write(): 120 ms right after it has signalled a worker's queue of new
            // peers), so that the worker serves the connection's first request - a 12 MiB answer to a client that reads late, most of it parked
            // in the connection's write queue - before the acceptor has finished its own bookkeeping for that connection
#if LV_INTERPOSE
            {
                lv::ip().acceptorDelayMs = 120;
                std::vector<std::unique_ptr<lv::Conn>> late;
                for (int k = 0; k < 2 * workers; k++) { late.emplace_back(new lv::Conn()); if (late.back()->open_to(port, 4096)) late.back()->send_all("GET /blob/12288 HTTP/1.1\r\nHost: x\r\n\r\n"); else late.pop_back(); }
                lv::msleep(400);
                lv::ip().acceptorDelayMs = 0;
                long shortAnswers = 0; std::string firstBad;
                for (size_t k = 0; k < late.size(); k++) { std::string b; lv::HttpMsg m = lv::read_response(*late[k], b, 0, (int)(8000 * lv::load_factor()));
                    if (!m.complete || m.status != 200 || m.body.size() != 12288u * 1024u || m.body.find_first_not_of('b') != std::string::npos) { shortAnswers++; if (firstBad.empty()) firstBad = "connection " + std::to_string(k) + ": " + (m.complete ? "status " + std::to_string(m.status) + ", " + std::to_string(m.body.size()) + " body bytes" : "incomplete after " + std::to_string(b.size()) + " bytes (" + m.error + ")"); } }
                count("slow_acceptor_connections", (long)late.size()); count("slow_acceptor_delays", lv::ip().acceptorDelays.load());
                if (shortAnswers) viol("c09:answer-incomplete:slow-acceptor", cfg + ": " + std::to_string(shortAnswers) + " of " + std::to_string(late.size()) + " large answers to connections accepted by a delayed acceptor did not arrive completely (" + firstBad + ")", Json().str("config", cfg).num("incomplete", shortAnswers).done());
            }
#endif
            std::vector<std::thread> th; std::vector<ClientStats> cs((size_t)churners);
            for (int k = 0; k < churners; k++) th.emplace_back([&, k] { churn_loop(port, 100 + k, nconn, seed * 977 + (uint64_t)k, false, cs[(size_t)k], cfg); });
            for (auto& t : th) t.join();
            ep->shutdown(); delete ep; responder.finish(); g_responder = nullptr;
            long ok = 0; for (auto& c : cs) ok += c.ok;
            g_evals++; count("storm_rounds"); count("storm_responses_checked", ok);
            g_distinct.add("storm|" + std::to_string(workers) + "|" + std::to_string(churners));
            if (g_samples_left > 0) { g_samples_left--; sample(Json().str("config", cfg).num("responses_checked", ok).done()); }
        }
        g_distinct.flush();
        Json s; s.str("t", "sum").num("evaluations", g_evals);
    #if LV_INTERPOSE
    if (lv::ip().pollDelays.load()) g_counts["poll_delays_injected"] = lv::ip().pollDelays.load();
#endif
    Json c; for (auto& kv : g_counts) c.num(kv.first, kv.second);
        s.raw("counts", c.done());
        emit(s.done());
        _exit(0);
    }
    for (long n = 0; n < g_opts.cases; n++) {
        long idx = g_opts.shard * 100000L + n;
        int workers = (int)std::vector<int>{1, 2, 4, 8}[r.below(4)];
        int clients = r.range(1, (int)g_opts.num("maxclients", 12));
        int nreq = r.range(5, (int)g_opts.num("maxreq", 120));
        int mode = (int)(n % 11);
        uint64_t seed = r.next();
        emit(Json().str("t", "progress").num("i", idx).num("stride", 1).done());
        if (idx <= skip) continue;
        run_config(idx, workers, clients, nreq, mode, seed);
    }
    g_distinct.flush();
    Json s; s.str("t", "sum").num("evaluations", g_evals);
#if LV_INTERPOSE
    if (lv::ip().pollDelays.load()) g_counts["poll_delays_injected"] = lv::ip().pollDelays.load();
#endif
    Json c; for (auto& kv : g_counts) c.num(kv.first, kv.second);
    s.raw("counts", c.done());
    emit(s.done());
    _exit(0);
}
