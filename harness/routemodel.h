// Independent route matcher over a LIST of patterns (shared by the in-process and the live C10 monitors).
#pragma once
#include <pistache/http_defs.h>
#include <map>
#include <string>
#include <vector>
namespace rm {
using namespace Pistache;
struct Pattern {
    int id;
    Http::Method method;
    std::vector<std::string> segs;   // "a", ":x", ":o?", "*"
    std::string text;                // as registered (may carry extra slashes)
    bool midOptional = false;
};
static const Http::Method METHODS[] = {Http::Method::Get, Http::Method::Post, Http::Method::Put, Http::Method::Delete};
static const char* MNAME(Http::Method m) { return Http::methodString(m); }

// ------------------------------------------------------------------ reference matcher
struct Match { std::vector<int> rank; std::map<std::string, std::string> params; std::vector<std::string> splats; };
static void match_rec(const Pattern& p, size_t pi, const std::vector<std::string>& path, size_t si, Match cur, std::vector<Match>& out) {
    if (pi == p.segs.size()) { if (si == path.size()) out.push_back(cur); return; }
    const std::string& s = p.segs[pi];
    if (s == "*") { if (si < path.size()) { cur.rank.push_back(3); cur.splats.push_back(path[si]); match_rec(p, pi + 1, path, si + 1, cur, out); } return; }
    if (s[0] == ':' && s.back() == '?') {
        std::string name = s.substr(0, s.size() - 1);
        if (si < path.size()) { Match m = cur; m.rank.push_back(2); m.params[name] = path[si]; match_rec(p, pi + 1, path, si + 1, m, out); }
        match_rec(p, pi + 1, path, si, cur, out);   // absent
        return;
    }
    if (s[0] == ':') { if (si < path.size()) { cur.rank.push_back(1); cur.params[s] = path[si]; match_rec(p, pi + 1, path, si + 1, cur, out); } return; }
    if (si < path.size() && path[si] == s) { cur.rank.push_back(0); match_rec(p, pi + 1, path, si + 1, cur, out); }
}
struct Admissible { int pattern; Match m; };
// best matches (lexicographically smallest rank vector) among the patterns of one method; ties are all admissible
static std::vector<Admissible> best_matches(const std::vector<Pattern>& table, Http::Method method, const std::vector<std::string>& path) {
    std::vector<Admissible> all;
    for (auto& p : table) if (p.method == method) { std::vector<Match> ms; match_rec(p, 0, path, 0, Match(), ms); for (auto& m : ms) all.push_back({p.id, m}); }
    if (all.empty()) return all;
    // A match is admissible unless another match dominates it.  A dominates B when, at the first
    // pattern segment where the two routes part (same route-tree node, same number of path segments
    // consumed so far), A continues with a segment kind of higher precedence
    // (fixed < parameter < optional < wildcard).  Same kind under another name (":x" vs ":y"), or one
    // route ending where the other continues with absent optionals, is a tie: the statement does
    // not order those, so both stay admissible.
    auto kind = [](const std::string& s) { return s == "*" ? 3 : s[0] == ':' ? (s.back() == '?' ? 2 : 1) : 0; };
    auto byId = [&](int id) -> const Pattern& { for (auto& p : table) if (p.id == id) return p; return table[0]; };
    auto dominates = [&](const Admissible& A, const Admissible& B) {
        if (A.pattern == B.pattern) return false;
        const Pattern& pa = byId(A.pattern); const Pattern& pb = byId(B.pattern);
        size_t i = 0; size_t ca = 0, cb = 0;   // consumed path segments (rank entries) so far
        auto consumed = [&](const Admissible& M, const Pattern& p, size_t idx, size_t& c) {
            const std::string& s = p.segs[idx];
            if (s[0] == ':' && s.back() == '?') { std::string n = s.substr(0, s.size() - 1); if (M.m.params.count(n)) c++; } else c++;
        };
        while (i < pa.segs.size() && i < pb.segs.size() && pa.segs[i] == pb.segs[i]) { consumed(A, pa, i, ca); consumed(B, pb, i, cb); i++; }
        if (ca != cb) return false;
        if (i >= pa.segs.size() || i >= pb.segs.size()) return false;
        return kind(pa.segs[i]) < kind(pb.segs[i]);
    };
    std::vector<Admissible> out;
    for (auto& b : all) { bool dom = false; for (auto& a : all) if (dominates(a, b)) { dom = true; break; } if (!dom) out.push_back(b); }
    return out;
}

}  // namespace rm
