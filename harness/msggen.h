// Grammar-directed generator of HTTP/1.1 requests and responses in which every byte carries
// its grammar role, plus snapshots of parsed messages.  Shared by the parser-level (C01/C03/C04)
// and live (C02/C05/C14) harnesses.  Written from RFC 7230, independent of Pistache's parser.
#pragma once
#include "common.h"
#include <pistache/http.h>
#include <sstream>

namespace mg {
using vf::Rng;

enum Role : unsigned char {
    R_METHOD, R_SP1, R_TARGET, R_QMARK, R_QKEY, R_QEQ, R_QVAL, R_QAMP, R_SP2, R_VERSION, R_SL_CR, R_SL_LF,
    R_STATUS, R_REASON,
    R_HNAME, R_COLON, R_OWS, R_HVALUE, R_H_CR, R_H_LF, R_END_CR, R_END_LF,
    R_BODY, R_CSIZE, R_CEXT, R_CS_CR, R_CS_LF, R_CDATA, R_CD_CR, R_CD_LF, R_LAST0, R_LC_CR, R_LC_LF, R_FIN_CR, R_FIN_LF,
    R_JUNK, R_COUNT
};
static const char* ROLE_NAME[] = {
    "method", "sp1", "target", "qmark", "qkey", "qeq", "qval", "qamp", "sp2", "version", "sl-CR", "sl-LF",
    "status", "reason",
    "hname", "colon", "ows", "hvalue", "h-CR", "h-LF", "end-CR", "end-LF",
    "body", "csize", "cext", "cs-CR", "cs-LF", "cdata", "cd-CR", "cd-LF", "last0", "lc-CR", "lc-LF", "fin-CR", "fin-LF",
    "junk"};

struct Msg {
    std::string bytes;
    std::vector<unsigned char> roles;
    bool response = false;
    bool wellformed = true;
    std::string shape;       // coarse class: kind/body kind/feature flags
    std::string defect;      // for near-well-formed messages: which rule is broken
    void add(const std::string& s, Role r) { bytes += s; roles.insert(roles.end(), s.size(), (unsigned char)r); }
    void add(char c, Role r) { bytes += c; roles.push_back((unsigned char)r); }
    std::string cutClass(size_t cut) const {  // cut between byte cut-1 and byte cut
        if (cut == 0 || cut >= bytes.size()) return "edge";
        return std::string(ROLE_NAME[roles[cut - 1]]) + "|" + ROLE_NAME[roles[cut]];
    }
};

static const char* METHODS[] = {"OPTIONS", "GET", "POST", "HEAD", "PUT", "PATCH", "DELETE", "TRACE", "CONNECT"};
static const char* PATHCH = "abcdefghijklmnopqrstuvwxyzABCDEFGHIJKLMNOPQRSTUVWXYZ0123456789-._~!$'()*+,;:@/%";
static const char* QCH = "abcdefghijklmnopqrstuvwxyzABCDEFGHIJKLMNOPQRSTUVWXYZ0123456789-._~!$'()*+,;:@/%";
static const char* TOKCH = "abcdefghijklmnopqrstuvwxyzABCDEFGHIJKLMNOPQRSTUVWXYZ0123456789-_.!#$%&'*+^`|~";

inline std::string tok(Rng& r, int lo, int hi, const char* al) {
    size_t n = strlen(al); int k = r.range(lo, hi); std::string s;
    for (int i = 0; i < k; i++) s += al[r.below(n)];
    return s;
}
inline std::string octets(Rng& r, int len, int style) {
    std::string s;
    for (int i = 0; i < len; i++) {
        unsigned char c;
        switch (style) {
        case 0: c = (unsigned char)r.below(256); break;
        case 1: c = (unsigned char)("\r\n\r\n0\r\n\0\xff a"[r.below(12)]); break;   // framing look-alikes
        case 2: c = (unsigned char)('a' + r.below(26)); break;
        default: c = (unsigned char)(r.chance(1, 6) ? "\r\n"[r.below(2)] : r.below(256)); break;
        }
        s += (char)c;
    }
    return s;
}

struct HeaderLine { std::string name, value; };
// values valid for the registered header types (so that a well-formed message is accepted)
inline HeaderLine typed_header(Rng& r, bool response) {
    switch (r.range(0, 15)) {
    case 0: return {"Content-Type", r.chance(1, 2) ? "text/plain" : r.chance(1, 2) ? "application/json; charset=utf-8" : "application/vnd.x.y+json; q=0.5"};
    case 1: return {"Host", r.chance(1, 3) ? "example.com" : r.chance(1, 2) ? "127.0.0.1:" + std::to_string(r.range(1, 65535)) : "[::1]:" + std::to_string(r.range(1, 65535))};
    case 2: return {"User-Agent", "agent/" + tok(r, 1, 12, TOKCH) + " (x y)"};
    case 3: return {"Connection", r.chance(1, 2) ? "keep-alive" : r.chance(1, 2) ? "Close" : "upgrade"};
    case 4: return {"Cache-Control", r.chance(1, 2) ? "no-cache" : "max-age=" + std::to_string(r.range(0, 99999)) + (r.chance(1, 2) ? ", public" : "")};
    case 5: return {"Location", "/" + tok(r, 0, 20, PATHCH)};
    case 6: return {"Authorization", r.chance(1, 2) ? "Bearer " + tok(r, 1, 20, TOKCH) : "Basic dTpw"};
    case 7: return {"Server", tok(r, 1, 10, TOKCH) + (r.chance(1, 2) ? " " + tok(r, 1, 6, TOKCH) : "")};
    case 8: return {"Access-Control-Allow-Origin", r.chance(1, 2) ? "*" : "https://a.example"};
    case 9: return {"Content-Encoding", r.chance(1, 2) ? "gzip" : "identity"};
    case 10: return {"Date", r.chance(1, 2) ? "Sun, 06 Nov 1994 08:49:37 GMT" : "Tue, 19 Jan 2038 03:14:07 GMT"};
    case 11: return {"Expect", "100-continue"};
    case 12: return {"Accept", r.chance(1, 2) ? "text/html, application/json; q=0.8" : "*/*"};
    case 13: return {"Access-Control-Allow-Headers", "X-A, X-B"};
    case 14: return {"Allow", "GET, POST"};
    default: return {response ? "Access-Control-Expose-Headers" : "Access-Control-Allow-Methods", "GET"};
    }
}
inline HeaderLine unknown_header(Rng& r) {
    HeaderLine h;
    h.name = "X-" + tok(r, 1, 10, TOKCH);
    for (auto& c : h.name) if (c == ':') c = '_';
    int len = r.range(0, 40);
    int style = r.range(0, 2);
    for (int k = 0; k < len; k++) {
        char c = style == 0 ? (char)r.below(256) : style == 1 ? (char)(0x21 + r.below(94)) : "\r:; =,\t\x00\xff\"a"[r.below(12)];
        if (c == '\n') c = 'n';
        h.value += c;
    }
    // a lone CR may appear inside a value but not directly before the terminating CRLF look-alike
    for (size_t i = 0; i + 1 < h.value.size(); i++) if (h.value[i] == '\r' && h.value[i + 1] == '\n') h.value[i + 1] = 'n';
    while (!h.value.empty() && (h.value.front() == ' ')) h.value.erase(0, 1);
    return h;
}
static const char* CKNAME = "abcdefghijklmnopqrstuvwxyzABCXYZ0123456789-_.!#$%&'*+^`|~";
static const char* CKVAL = "abcdefghijklmnopqrstuvwxyzABCXYZ0123456789!#$%&'()*+-./:<=>?@[]^_`{|}~";
inline HeaderLine cookie_header(Rng& r) {
    std::string v; int n = r.range(1, 4);
    for (int i = 0; i < n; i++) { if (i) v += "; "; v += tok(r, 1, 6, CKNAME) + "=" + tok(r, 0, 10, CKVAL); }
    return {"Cookie", v};
}
inline HeaderLine setcookie_header(Rng& r) {
    std::string v = tok(r, 1, 6, CKNAME) + "=" + tok(r, 0, 10, CKVAL);
    if (r.chance(1, 2)) v += "; Path=/" + tok(r, 0, 6, "abc/");
    if (r.chance(1, 3)) v += "; Domain=ex.ample";
    if (r.chance(1, 3)) v += "; Max-Age=" + std::to_string(r.range(0, 100000));
    if (r.chance(1, 4)) v += "; Expires=Sun, 06 Nov 1994 08:49:37 GMT";
    if (r.chance(1, 3)) v += "; Secure";
    if (r.chance(1, 3)) v += "; HttpOnly";
    if (r.chance(1, 4)) v += "; Scope=" + tok(r, 1, 5, CKNAME);
    return {"Set-Cookie", v};
}
inline std::string rnd_case(Rng& r, std::string s) {
    for (auto& c : s) if (isalpha((unsigned char)c) && r.chance(1, 2)) c = (char)(isupper((unsigned char)c) ? tolower(c) : toupper(c));
    return s;
}

struct GenOpts {
    int maxBody = 3000;
    bool allowDefects = false;   // near-well-formed variants
    int forceBody = -1;          // 0 none, 1 content-length, 2 chunked
    int forceResponse = -1;
};

inline void add_headers(Msg& m, Rng& r, const std::vector<HeaderLine>& hs) {
    for (auto& h : hs) {
        m.add(h.name, R_HNAME);
        m.add(':', R_COLON);
        int sp = r.range(0, 2);
        m.add(std::string((size_t)(sp == 2 ? 2 : sp), ' '), R_OWS);
        m.add(h.value, R_HVALUE);
        m.add('\r', R_H_CR); m.add('\n', R_H_LF);
    }
}
inline void add_chunked_body(Msg& m, Rng& r, int maxBody, std::string* decoded, const std::string& defect) {
    int nchunks = r.range(1, 6);
    for (int i = 0; i < nchunks; i++) {
        static const int SZ[] = {1, 2, 9, 10, 15, 16, 17, 255, 256, 257, 1000};
        int sz = r.chance(1, 2) ? r.pick(SZ) : r.range(1, std::max(1, maxBody / nchunks));
        sz = std::min(sz, std::max(1, maxBody / nchunks));
        char hexbuf[32];
        int style = r.range(0, 3);
        snprintf(hexbuf, sizeof hexbuf, style == 0 ? "%x" : style == 1 ? "%X" : style == 2 ? "%04x" : "0%X", sz);
        std::string hs = hexbuf;
        if (defect == "bad-chunk-size" && i == nchunks - 1) hs = r.chance(1, 2) ? "zz" : hs + "g";
        m.add(hs, R_CSIZE);
        if (defect == "chunk-ext" && i == 0) m.add(";ext=1", R_CEXT);
        m.add('\r', R_CS_CR); m.add('\n', R_CS_LF);
        std::string data = octets(r, sz, r.range(0, 3));
        if (decoded) *decoded += data;
        m.add(data, R_CDATA);
        m.add('\r', R_CD_CR); m.add('\n', R_CD_LF);
    }
    m.add(r.chance(1, 4) ? "000" : "0", R_LAST0);
    m.add('\r', R_LC_CR); m.add('\n', R_LC_LF);
    m.add('\r', R_FIN_CR); m.add('\n', R_FIN_LF);
}

inline Msg gen_message(Rng& r, const GenOpts& o = GenOpts()) {
    Msg m;
    m.response = o.forceResponse >= 0 ? o.forceResponse == 1 : r.chance(1, 3);
    std::string defect;
    if (o.allowDefects && r.chance(1, 3)) {
        static const char* REQD[] = {"unknown-method", "bad-version", "cl-and-te", "bad-chunk-size", "unsupported-coding", "bad-content-type", "bad-date", "chunk-ext", "lower-method", "bad-cookie", "huge-content-length", "missing-sp"};
        static const char* RESD[] = {"bad-version", "cl-and-te", "bad-chunk-size", "unsupported-coding", "bad-content-type", "bad-status", "chunk-ext", "bad-set-cookie", "no-space-after-version"};
        defect = m.response ? r.pick(RESD) : r.pick(REQD);
        m.wellformed = false;
        m.defect = defect;
    }
    std::string method = r.pick(METHODS);
    if (!m.response) {
        if (defect == "unknown-method") method = r.chance(1, 2) ? "FETCH" : tok(r, 1, 7, "ABCDEFGHIJKLMNOPQRSTUVWXYZ");
        if (defect == "lower-method") method = "get";
        m.add(method, R_METHOD);
        if (defect != "missing-sp") m.add(' ', R_SP1);
        m.add("/" + tok(r, 0, 24, PATHCH), R_TARGET);
        if (r.chance(1, 2)) {
            m.add('?', R_QMARK);
            int nq = r.range(0, 4);
            for (int i = 0; i < nq; i++) {
                if (i) m.add('&', R_QAMP);
                m.add(tok(r, r.chance(1, 8) ? 0 : 1, 8, QCH), R_QKEY);
                if (r.chance(3, 4)) { m.add('=', R_QEQ); m.add(tok(r, 0, 10, QCH), R_QVAL); }
            }
            if (nq && r.chance(1, 8)) m.add('&', R_QAMP);
        }
        m.add(' ', R_SP2);
        m.add(defect == "bad-version" ? (r.chance(1, 2) ? "HTTP/2.0" : "HTTX/1.1") : r.chance(1, 4) ? "HTTP/1.0" : "HTTP/1.1", R_VERSION);
        m.add('\r', R_SL_CR); m.add('\n', R_SL_LF);
    } else {
        std::string ver = r.chance(1, 4) ? "HTTP/1.0" : "HTTP/1.1";
        if (defect == "bad-version") ver = r.chance(1, 2) ? "HTTP/2.0" : "HTTX/1.1";
        m.add(ver, R_VERSION);
        if (defect != "no-space-after-version") m.add(' ', R_SP1);
        static const int CODES[] = {100, 200, 201, 204, 301, 304, 400, 404, 405, 408, 413, 418, 500, 501, 599};
        std::string code = std::to_string(r.chance(1, 2) ? r.pick(CODES) : r.range(100, 599));
        if (defect == "bad-status") code = r.chance(1, 2) ? "2x0" : "abc";
        m.add(code, R_STATUS);
        m.add(' ', R_SP2);
        m.add(r.chance(1, 8) ? "" : r.chance(1, 2) ? "OK" : "Some Reason phrase", R_REASON);
        m.add('\r', R_SL_CR); m.add('\n', R_SL_LF);
    }
    // headers
    std::vector<HeaderLine> hs;
    int nh = r.range(0, 8);
    for (int i = 0; i < nh; i++) {
        int k = r.range(0, 9);
        HeaderLine h;
        if (k <= 3) h = typed_header(r, m.response);
        else if (k <= 7) h = unknown_header(r);
        else h = m.response ? setcookie_header(r) : cookie_header(r);
        if (h.name == "Content-Length" || h.name == "Transfer-Encoding") continue;
        if (r.chance(1, 4)) h.name = rnd_case(r, h.name);
        hs.push_back(h);
        if (r.chance(1, 10)) { HeaderLine d = h; d.name = rnd_case(r, d.name); if (d.name.substr(0, 2) == "X-" || d.name.substr(0, 2) == "x-") d.value = "second"; hs.push_back(d); }
    }
    if (defect == "bad-content-type") hs.push_back({"Content-Type", r.chance(1, 2) ? "nonsense" : "text/"});
    if (defect == "bad-date") hs.push_back({"Date", "Yesterday at noon"});
    if (defect == "bad-cookie") hs.push_back({"Cookie", "novalue"});
    if (defect == "bad-set-cookie") hs.push_back({"Set-Cookie", "novalue"});
    int bodyKind = o.forceBody >= 0 ? o.forceBody : r.range(0, 2);
    if (defect == "cl-and-te" || defect == "bad-chunk-size" || defect == "chunk-ext") bodyKind = 2;
    if (defect == "unsupported-coding") bodyKind = 2;
    if (defect == "huge-content-length") bodyKind = 1;
    std::string body;
    int blen = 0;
    if (bodyKind == 1) {
        static const int BL[] = {0, 1, 2, 15, 16, 17, 100, 511, 512, 513, 1000, 2999};
        blen = r.chance(1, 2) ? r.pick(BL) : r.range(0, o.maxBody);
        blen = std::min(blen, o.maxBody);
        body = octets(r, blen, r.range(0, 3));
        std::string cl = std::to_string(blen);
        if (defect == "huge-content-length") cl = r.chance(1, 2) ? "99999999999" : "18446744073709551615";
        hs.insert(hs.begin() + (hs.empty() ? 0 : r.below(hs.size() + 1)), {r.chance(1, 4) ? rnd_case(r, "Content-Length") : "Content-Length", cl});
    } else if (bodyKind == 2) {
        std::string te = defect == "unsupported-coding" ? (r.chance(1, 2) ? "gzip" : "whatever") : r.chance(1, 4) ? "Chunked" : "chunked";
        hs.insert(hs.begin() + (hs.empty() ? 0 : r.below(hs.size() + 1)), {r.chance(1, 4) ? rnd_case(r, "Transfer-Encoding") : "Transfer-Encoding", te});
        if (defect == "cl-and-te") hs.push_back({"Content-Length", "5"});
    }
    add_headers(m, r, hs);
    m.add('\r', R_END_CR); m.add('\n', R_END_LF);
    if (bodyKind == 1) m.add(body, R_BODY);
    else if (bodyKind == 2) add_chunked_body(m, r, o.maxBody, nullptr, defect);
    m.shape = std::string(m.response ? "resp" : "req") + (bodyKind == 0 ? "/nobody" : bodyKind == 1 ? "/cl" : "/chunked") + (defect.empty() ? "" : "/" + defect);
    return m;
}

// ---------------------------------------------------------------- snapshots of parsed messages
inline std::string cookie_text(const Pistache::Http::Cookie& c) { std::ostringstream os; os << c; return os.str(); }
inline std::string snap_common(const Pistache::Http::Message& m) {
    std::string s;
    s += "version=" + std::string(Pistache::Http::versionString(m.version())) + "\n";
    std::vector<std::string> th;
    for (auto& h : m.headers().list()) { std::ostringstream os; os << h->name() << ": "; try { h->write(os); } catch (...) { os << "<write threw>"; } th.push_back(os.str()); }
    std::sort(th.begin(), th.end());
    for (auto& t : th) s += "typed " + t + "\n";
    std::vector<std::string> rh;
    for (auto& kv : m.headers().rawList()) rh.push_back(Pistache::Http::Header::toLowercase(kv.second.name()) + "=" + vf::hex(kv.second.value()));
    std::sort(rh.begin(), rh.end());
    for (auto& t : rh) s += "raw " + t + "\n";
    std::vector<std::string> ck;
    size_t guard = 0;
    for (auto it = m.cookies().begin(); it != m.cookies().end() && guard < 10000; ++it, ++guard) ck.push_back(cookie_text(*it));
    std::sort(ck.begin(), ck.end());
    for (auto& t : ck) s += "cookie " + t + "\n";
    s += "body " + std::to_string(m.body().size()) + " " + vf::hex(m.body()) + "\n";
    return s;
}
inline std::string snap(const Pistache::Http::Request& q) {
    std::string s = "method=" + std::string(Pistache::Http::methodString(q.method())) + "\nresource=" + q.resource() + "\n";
    std::vector<std::string> qs;
    for (auto it = q.query().parameters_begin(); it != q.query().parameters_end(); ++it) qs.push_back(it->first + "=" + it->second);
    std::sort(qs.begin(), qs.end());
    for (auto& t : qs) s += "query " + t + "\n";
    return s + snap_common(q);
}
inline std::string snap(const Pistache::Http::Response& p) { return "code=" + std::to_string((int)p.code()) + "\n" + snap_common(p); }

}  // namespace mg
