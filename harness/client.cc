// C15: every client request is answered by exactly its own response (real Experimental::Client
//      against a scripted raw server written here), incl. the client's emitted requests (C05 part).
// C02: what one side serialises the other parses back unchanged (real client <-> real endpoint).
#define LV_DEFINE_INTERPOSERS 1
#include "live.h"
#include "msggen.h"
#include <pistache/client.h>
#include <pistache/endpoint.h>
#include <pistache/http.h>

using namespace Pistache;
using namespace vf;

static Opts g_opts;
static Distinct g_distinct;
static long g_evals = 0;
static std::map<std::string, long> g_counts;
static std::mutex g_cm;
static long g_samples_left = 6;
static void count(const std::string& k, long n = 1) { std::lock_guard<std::mutex> g(g_cm); g_counts[k] += n; }
static std::mutex g_vm;
static void viol(const std::string& key, const std::string& what, const std::string& wt) { std::lock_guard<std::mutex> g(g_vm); violation(key, what, wt); }
static bool wait_for(std::function<bool()> f, double sec) { double end = lv::now() + sec; while (lv::now() < end) { if (f()) return true; lv::msleep(2); } return f(); }

// ------------------------------------------------------------------ scripted raw server
enum Behaviour { B_IMMEDIATE, B_DELAYED, B_DRIBBLE, B_CHUNKED, B_CLOSE_AFTER, B_NEVER, B_LATE, B_COUNT,
                 // failing responses for the client-level part of C04 (the connection stays open afterwards)
                 B_TOOLONG_ONE_PACKET = 20, B_TOOLONG_SECOND_PACKET, B_BAD_STATUS_LINE, B_BAD_COOKIE, B_BAD_CHUNK_SIZE, B_BOTH_FRAMINGS };
static const char* BNAME[] = {"immediate", "delayed", "dribbled", "chunked", "close-after-response", "never-answered", "answered-after-timeout"};
struct ReqLog { int id; int conn; int behaviour; bool answered; double at; };
struct RawServer {
    int lfd = -1, port = 0;
    std::thread acceptor; std::vector<std::thread> workers;
    std::mutex m; std::vector<ReqLog> log; std::vector<std::string> grammarErrors;
    std::atomic<int> open{0}, peak{0}, conns{0}; std::atomic<bool> stop{false};
    std::atomic<double> lastActivity{0};
    std::vector<int> fds;
    void start() {
        lfd = ::socket(AF_INET, SOCK_STREAM, 0); int one = 1; setsockopt(lfd, SOL_SOCKET, SO_REUSEADDR, &one, sizeof one);
        sockaddr_in a{}; a.sin_family = AF_INET; a.sin_addr.s_addr = htonl(INADDR_LOOPBACK); a.sin_port = 0;
        ::bind(lfd, (sockaddr*)&a, sizeof a); ::listen(lfd, 128);
        socklen_t l = sizeof a; getsockname(lfd, (sockaddr*)&a, &l); port = ntohs(a.sin_port);
        acceptor = std::thread([this] {
            for (;;) { struct pollfd p{lfd, POLLIN, 0}; if (::poll(&p, 1, 50) <= 0) { if (stop) return; continue; }
                int fd = ::accept(lfd, nullptr, nullptr); if (fd < 0) { if (stop) return; continue; }
                int id = conns++; int o = ++open; int pk = peak.load(); while (o > pk && !peak.compare_exchange_weak(pk, o)) {}
                { std::lock_guard<std::mutex> g(m); fds.push_back(fd); workers.emplace_back([this, fd, id] { serve(fd, id); }); } } });
    }
    void respond(int fd, const std::string& bytes, bool dribble) {
        if (!dribble) { ::send(fd, bytes.data(), bytes.size(), MSG_NOSIGNAL); return; }
        size_t pos = 0; Rng r((uint64_t)bytes.size() * 31 + (uint64_t)fd);
        while (pos < bytes.size()) { size_t n = std::min<size_t>(bytes.size() - pos, (size_t)r.range(1, 7)); ::send(fd, bytes.data() + pos, n, MSG_NOSIGNAL); pos += n; lv::msleep(1); }
    }
    void serve(int fd, int connId) {
        std::string buf; size_t off = 0;
        for (;;) {
            lv::HttpMsg q = lv::parse_http(buf, off, false);
            if (!q.error.empty()) { std::lock_guard<std::mutex> g(m); grammarErrors.push_back(q.error + " | " + buf.substr(off, 120)); break; }
            if (!q.complete) {
                struct pollfd p{fd, POLLIN, 0}; int pr = ::poll(&p, 1, 50);
                if (pr <= 0) { if (stop) break; continue; }
                char tmp[8192]; ssize_t n = ::recv(fd, tmp, sizeof tmp, 0); if (n <= 0) break; buf.append(tmp, (size_t)n); continue;
            }
            off += q.consumed;
            lastActivity = lv::now();
            // target: /t/<id>/<behaviour>/<param>
            int id = -1, b = 0, param = 0; if (sscanf(q.target.c_str(), "/t/%d/%d/%d", &id, &b, &param) != 3) sscanf(q.target.c_str(), "/?id=%d&b=%d&p=%d", &id, &b, &param);   // (second form: a URL with a query and no path)
            // request well-formedness beyond the grammar: Content-Length must equal the body the client was given
            { std::string want = q.header("Server"); if (want.rfind("blen-", 0) == 0) want = want.substr(5); else want.clear(); if (!want.empty() && (size_t)atol(want.c_str()) != q.body.size()) { std::lock_guard<std::mutex> g(m); grammarErrors.push_back("request body length " + std::to_string(q.body.size()) + " differs from the body given to the builder (" + want + ")"); } }
            size_t li; { std::lock_guard<std::mutex> g(m); log.push_back({id, connId, b, false, lv::now()}); li = log.size() - 1; }
            std::string body = "tag=" + std::to_string(id) + ";";
            body += std::string((size_t)(param % 2000), 'x');
            std::string head = "HTTP/1.1 200 OK\r\nX-Tag: " + std::to_string(id) + "\r\n";
            std::string resp;
            if (b == B_CHUNKED) { resp = head + "Transfer-Encoding: chunked\r\n\r\n"; size_t pos = 0; Rng r((uint64_t)id); while (pos < body.size()) { size_t n = std::min<size_t>(body.size() - pos, (size_t)r.range(1, 300)); char hx[16]; snprintf(hx, sizeof hx, "%zx", n); resp += std::string(hx) + "\r\n" + body.substr(pos, n) + "\r\n"; pos += n; } resp += "0\r\n\r\n"; }
            else resp = head + "Content-Length: " + std::to_string(body.size()) + "\r\n\r\n" + body;
            if (b >= B_TOOLONG_ONE_PACKET) {
                std::string filler((size_t)param, 'A');
                if (b == B_TOOLONG_ONE_PACKET) respond(fd, head + "Content-Length: " + std::to_string(filler.size()) + "\r\n\r\n" + filler, false);
                else if (b == B_TOOLONG_SECOND_PACKET) { std::string all = head + "Content-Length: " + std::to_string(filler.size()) + "\r\n\r\n" + filler; size_t first = std::min<size_t>(all.size() - 1, head.size() + 60); ::send(fd, all.data(), first, MSG_NOSIGNAL); lv::msleep(40); ::send(fd, all.data() + first, all.size() - first, MSG_NOSIGNAL); }
                else if (b == B_BAD_STATUS_LINE) respond(fd, "HTTP/1.1 2x0 OK\r\nX-Old: 1\r\nContent-Length: 3\r\n\r\nabc", false);
                else if (b == B_BAD_COOKIE) respond(fd, head + "X-Old: 1\r\nSet-Cookie: novalue\r\nContent-Length: 3\r\n\r\nabc", false);
                else if (b == B_BAD_CHUNK_SIZE) respond(fd, head + "X-Old: 1\r\nTransfer-Encoding: chunked\r\n\r\n3\r\nabc\r\nzz\r\n", false);
                else respond(fd, head + "X-Old: 1\r\nContent-Length: 3\r\nTransfer-Encoding: chunked\r\n\r\n3\r\nabc\r\n0\r\n\r\n", false);
                { std::lock_guard<std::mutex> g(m); log[li].answered = true; }
                lastActivity = lv::now();
                continue;
            }
            if (b == B_NEVER) continue;
            if (b == B_DELAYED) lv::msleep(param >= 10000 ? param - 10000 : param >= 600 && param < 640 ? param : 10 + param % 40);
            if (b == B_LATE) lv::msleep(param);   // param = client's time-out + margin
            respond(fd, resp, b == B_DRIBBLE);
            { std::lock_guard<std::mutex> g(m); log[li].answered = true; }
            lastActivity = lv::now();
            if (b == B_CLOSE_AFTER) break;
        }
        ::close(fd); open--;
    }
    void shutdown() { stop = true; if (acceptor.joinable()) acceptor.join(); { std::lock_guard<std::mutex> g(m); } for (auto& w : workers) if (w.joinable()) w.join(); ::close(lfd); }
};

struct Outcome { std::atomic<int> fulfilled{0}, rejected{0}; std::atomic<int> tag{-2}; std::atomic<int> status{0}; std::atomic<double> at{0}; std::string err; };

static void c15_batch(long idx, long n, uint64_t seed) {
    {
        Rng r(seed);
        RawServer srv; srv.start();
        int threads = r.range(1, 4), maxConn = r.range(1, 8), nreq = r.range(1, 64);
        int scenario = (int)((n + g_opts.shard) % 11);   // 0 only answering behaviours, 1 with never-answered + time-outs, 2 with late answers, 3 close-after mix,
                                       // 4 answered requests that carry a time-out followed by slow requests without one,
                                       // 5 a response and the expiry of a time-out reaching the client in ONE poll result (see below)
                                       // 6 requests to a host whose connect() fails on the spot, queued together with requests that need new connections to
                                       //   the healthy server while the I/O thread is busy: the failed entry must not end the drain of the connection queue
                                       // 7 a long history on ONE client: five waves of 520 requests over two connections, each wave waited for (2 500 requests
                                       //   pass through the overflow queue; how many wait at once is unremarkable)
                                       // 8 a response and the expiry of ITS OWN time-out reach the busy I/O thread in one poll result (response first), and a queued
                                       //   request with a time-out that the server never answers is handed over to that connection in the same poll: it must be rejected
        if (scenario == 5) { threads = 1; maxConn = 2; nreq = 7; }
        static int deadHostWorks = -1;   // does a non-blocking connect to the limited-broadcast address fail at once here (ENETUNREACH)?
        if (deadHostWorks < 0) { int fd = ::socket(AF_INET, SOCK_STREAM | SOCK_NONBLOCK, 0); sockaddr_in a{}; a.sin_family = AF_INET; a.sin_port = htons(9); a.sin_addr.s_addr = htonl(INADDR_BROADCAST); int rc = ::connect(fd, (sockaddr*)&a, sizeof a); deadHostWorks = (rc == -1 && errno != EINPROGRESS) ? 1 : 0; ::close(fd); }
        if (scenario == 6 && !deadHostWorks) { scenario = 0; count("dead_host_scenario_not_applicable_here"); }
        if (scenario == 6) { threads = 1; maxConn = r.range(3, 8); nreq = r.range(6, 20); }
        if (scenario == 7) { threads = 1; maxConn = 2; nreq = 520; }
        if (scenario == 10) { threads = 1; maxConn = 1; nreq = 3; }   // 10 one client, TWO hosts, one connection each: a slow request occupies host A's connection with three more queued behind it, a quicker one
                                                                      //    occupies host B's with three queued; when B's connection is released A is still saturated - B's queue must be served all the same
        if (scenario == 9) { threads = 1; maxConn = 1; nreq = 3; }   // 9 a long run of time-outs on ONE connection: 140 requests (time-out 20 ms) that the server never answers, one after the other, each has to be
                                                                      //   rejected; then answered requests on that connection have to be fulfilled (whatever the connection keeps per time-out must not run out)
        if (scenario == 8) { threads = 1; maxConn = 2; nreq = 4; }
        if (scenario == 4) nreq = std::min(nreq, 16 * maxConn);   // its slow requests take 0.6 s each: the batch has to fit into the waiting bound
        Http::Experimental::Client client;
        client.init(Http::Experimental::Client::options().threads(threads).maxConnectionsPerHost(maxConn));
        std::vector<std::unique_ptr<Outcome>> out; std::vector<int> beh((size_t)nreq), timeoutMs((size_t)nreq, 0);
        std::string base = "http://127.0.0.1:" + std::to_string(srv.port);
        std::string cfg = "threads=" + std::to_string(threads) + " maxConnectionsPerHost=" + std::to_string(maxConn) + " requests=" + std::to_string(nreq) + " scenario=" + std::to_string(scenario);
        set_case(idx, Json().num("i", idx).str("phase", "c15").str("config", cfg).done());
        // application threads issuing the batch: 1, or several released together (the pool is then claimed concurrently by the
        // issuers and by the I/O threads handing queued requests over)
        int issuers = r.chance(2, 5) ? r.range(2, 6) : 1;
        if (scenario >= 5) issuers = 1;
        cfg += " issuers=" + std::to_string(issuers);
        set_case(idx, Json().num("i", idx).str("phase", "c15").str("config", cfg).done());
        std::vector<int> params((size_t)nreq); std::vector<std::string> bodies((size_t)nreq); std::vector<int> pauseAfter((size_t)nreq, -1); std::vector<char> dead((size_t)nreq, 0), lenient((size_t)nreq, 0); std::atomic<int> ioBusy{0};
        for (int k = 0; k < nreq; k++) {
            out.emplace_back(new Outcome());
            int b;
            if (scenario == 0) b = r.range(0, 3);
            else if (scenario == 1) b = r.chance(1, 5) ? B_NEVER : r.range(0, 3);
            else if (scenario == 2) b = r.chance(1, 4) ? B_LATE : r.range(0, 3);
            else if (scenario == 3) b = r.chance(1, 4) ? B_CLOSE_AFTER : r.range(0, 3);
            else if (scenario == 6) { b = k == 0 ? B_IMMEDIATE : r.range(0, 3); if (k >= 1 && k <= 3 && (k == 1 || r.chance(1, 2))) dead[(size_t)k] = 1; }
            else b = r.chance(1, 2) ? B_IMMEDIATE : B_DELAYED;
            beh[(size_t)k] = b;
            int param = r.range(0, 1500);
            int to = 0;
            // scenario 4: a time-out that is NOT reached (answered at once) on one request, then a slow request without any
            // time-out on the same connection: the first request's timer must be gone by then
            if (scenario == 4) { if (b == B_IMMEDIATE) to = 250; else param = 600 + r.range(0, 39); }
            if (b == B_NEVER) to = 400;
            if (b == B_LATE) { to = 200; param = 600; }
            if (scenario == 5) {
                // One I/O thread, two connections.  Request 0 is answered after 596 ms and its continuation keeps the I/O thread busy for
                // 8 ms.  Requests 1-3 (time-out 200 ms, answered after 599 ms) follow each other on the second connection: the third one's
                // timer expires at 600 ms, the late answer to the first arrives at 599 ms - both while the I/O thread is busy, so they are
                // reported together, the answer first.  Requests 4-6 (no time-out) are queued behind.  What the late answer does to the
                // requests is the recorded finding; the timer event that is left over must not be applied to request 4.
                bodies[(size_t)k].clear(); pauseAfter[(size_t)k] = -1;
                if (k == 0) { b = B_DELAYED; param = 10596; to = 0; } else if (k <= 3) { b = B_LATE; param = 599; to = 200; } else { b = B_IMMEDIATE; param = 5; to = 0; }
                beh[(size_t)k] = b;
            }
            if (scenario == 7 || scenario == 9 || scenario == 10) { b = B_IMMEDIATE; param = 0; to = 0; beh[(size_t)k] = b; }
            if (scenario == 8) {
                // 0: answered after 100 ms, its continuation keeps the I/O thread for 400 ms.  1 (R): answered after 150 ms, time-out 300 ms, on the
                // second connection.  2 (F) and 3 (Q) are issued while the thread is held: F is answered after 1 s, Q (time-out 200 ms) never.
                static const int B8[] = {B_DELAYED, B_DELAYED, B_DELAYED, B_NEVER}; static const int P8[] = {10100, 10150, 11000, 0}; static const int T8[] = {0, 300, 0, 200};
                b = B8[k]; param = P8[k]; to = T8[k]; beh[(size_t)k] = b; if (k == 1) lenient[(size_t)k] = 1;
            }
            timeoutMs[(size_t)k] = to; params[(size_t)k] = param;
            if (r.chance(1, 3)) { int bl = r.range(1, 300); for (int j = 0; j < bl; j++) bodies[(size_t)k] += (char)r.below(256); }
            if (r.chance(1, 6)) pauseAfter[(size_t)k] = r.range(0, 3);
            if (scenario >= 6) { pauseAfter[(size_t)k] = -1; if (scenario != 6) bodies[(size_t)k].clear(); }
        }
        auto build = [&](int k) {
            int b = beh[(size_t)k], param = params[(size_t)k], to = timeoutMs[(size_t)k]; const std::string& bodyIn = bodies[(size_t)k];
            // one URL in twelve has a query and no path ("host:port?id=..."): the request line must still carry an origin-form target
            std::string url = dead[(size_t)k] ? std::string((idx / 100000 + idx % 100000) % 2 ? "http://127.0.0.1:1" : "http://255.255.255.255:9") + "/t/" + std::to_string(k) + "/0/0" : (k % 12 == 7) ? base + "?id=" + std::to_string(k) + "&b=" + std::to_string(b) + "&p=" + std::to_string(param) : base + "/t/" + std::to_string(k) + "/" + std::to_string(b) + "/" + std::to_string(param);
            auto rb = bodyIn.empty() ? client.get(url) : client.post(url);
            if (!bodyIn.empty()) rb.body(bodyIn);
            rb.header<Http::Header::Server>("blen-" + std::to_string(bodyIn.size()));
            if (to) rb.timeout(std::chrono::milliseconds(to));
            return rb;
        };
        auto issue = [&](int k, Http::Experimental::RequestBuilder* prebuilt = nullptr) {
            Outcome* o = out[(size_t)k].get();
            auto rb = prebuilt ? *prebuilt : build(k);
            try {
                bool blockIo = scenario == 5 && k == 0; int holdIo = (scenario == 6 && k == 0) ? 60 : (scenario == 8 && k == 0) ? 400 : 0; std::atomic<int>* busy = &ioBusy;
                rb.send().then([o, blockIo, holdIo, busy](Http::Response resp) { int t = -1; sscanf(resp.body().c_str(), "tag=%d;", &t); o->tag = t; o->status = (int)resp.code(); o->at = lv::now(); o->fulfilled++; if (blockIo) lv::msleep(8); if (holdIo) { busy->store(1); lv::msleep(holdIo); } },
                               [o](std::exception_ptr) { o->at = lv::now(); o->rejected++; });
            } catch (const std::exception& e) { o->err = e.what(); o->rejected++; }
            if (pauseAfter[(size_t)k] >= 0) lv::msleep(pauseAfter[(size_t)k]);
        };
        if (issuers == 1) { for (int k = 0; k < nreq; k++) { issue(k);
            // scenario 6: everything after request 0 is issued while its continuation keeps the (only) I/O thread away from its loop
            if (scenario == 8 && k == 1) { double e0 = lv::now() + 5.0 * lv::load_factor(); while (!ioBusy.load() && lv::now() < e0) usleep(200); if (ioBusy.load()) count("own_timer_and_response_batches_staged"); }
            if (scenario == 6 && k == 0) { double e0 = lv::now() + 5.0 * lv::load_factor(); while (!ioBusy.load() && lv::now() < e0) usleep(200); if (ioBusy.load()) count("dead_host_batches_queued_while_io_thread_busy"); } } }
        else {
            std::atomic<int> ready{0}; std::atomic<bool> go{false}; std::vector<std::thread> it;
            // every issuer has its first request built before the barrier: the very first send() calls of a fresh client (no pool for
            // the host yet) hit the pool at the same instant
            for (int t = 0; t < issuers; t++) it.emplace_back([&, t] {
                std::unique_ptr<Http::Experimental::RequestBuilder> first; if (t < nreq) first.reset(new Http::Experimental::RequestBuilder(build(t)));
                ready++; while (!go.load(std::memory_order_acquire)) { }
                for (int k = t; k < nreq; k += issuers) issue(k, k == t ? first.get() : nullptr); });
            while (ready.load() < issuers) lv::msleep(1);
            go.store(true, std::memory_order_release);
            for (auto& t : it) t.join();
            count("batches_issued_from_several_threads");
        }
        // wait: everything settled, or the server has been idle for the grace period
        double lf = lv::load_factor();
        auto allSettled = [&] { for (size_t k = 0; k < out.size(); k++) { if (k < dead.size() && dead[k]) continue; if (out[k]->fulfilled + out[k]->rejected == 0) return false; } return true; };
        double hardEnd = lv::now() + 20.0 * lf;
        while (!allSettled() && lv::now() < hardEnd) { lv::msleep(10); if (lv::now() - srv.lastActivity.load() > 3.0 * lf && lv::now() - srv.lastActivity.load() < 1e6 && srv.lastActivity.load() > 0) break; }
        // a batch cut short by the bound while the server was still receiving requests: what had not been sent yet is not judged
        bool truncated = !allSettled() && srv.lastActivity.load() > 0 && lv::now() - srv.lastActivity.load() <= 3.0 * lf;
        lv::msleep(50);
        // scenario 7: four more waves of the same size through the same client, each waited for
        if (scenario == 7 && allSettled()) {
            for (int wave = 1; wave < 5 && allSettled(); wave++) {
                int first = nreq;
                for (int k = 0; k < 520; k++) { out.emplace_back(new Outcome()); beh.push_back(B_IMMEDIATE); timeoutMs.push_back(0); }
                nreq += 520;
                for (int k = first; k < nreq; k++) { Outcome* o = out[(size_t)k].get();
                    try { client.get(base + "/t/" + std::to_string(k) + "/0/0").send().then([o](Http::Response resp) { int t = -1; sscanf(resp.body().c_str(), "tag=%d;", &t); o->tag = t; o->status = (int)resp.code(); o->fulfilled++; }, [o](std::exception_ptr) { o->rejected++; }); }
                    catch (const std::exception& e) { o->err = e.what(); o->rejected++; } }
                double e7 = lv::now() + 15.0 * lf; while (!allSettled() && lv::now() < e7) lv::msleep(5);
                count("long_history_waves");
            }
        }
        if (scenario == 9 && allSettled()) {
            auto issue = [&](int k, int b, int to) { Outcome* o = out[(size_t)k].get();
                try { auto rb = client.get(base + "/t/" + std::to_string(k) + "/" + std::to_string(b) + "/0"); if (to) rb.timeout(std::chrono::milliseconds(to));
                      rb.send().then([o](Http::Response resp) { int t = -1; sscanf(resp.body().c_str(), "tag=%d;", &t); o->tag = t; o->status = (int)resp.code(); o->fulfilled++; }, [o](std::exception_ptr) { o->rejected++; }); }
                catch (const std::exception& e) { o->err = e.what(); o->rejected++; } };
            int runLen = (int)g_opts.num("timeout-run", 140);
            for (int j = 0; j < runLen; j++) { int k = nreq++; out.emplace_back(new Outcome()); beh.push_back(B_NEVER); timeoutMs.push_back(20); issue(k, B_NEVER, 20);
                Outcome* o = out[(size_t)k].get(); double e9 = lv::now() + 3.0 * lf; while (!(o->fulfilled.load() + o->rejected.load()) && lv::now() < e9) lv::msleep(1);
                if (!(o->fulfilled.load() + o->rejected.load())) break; count("timeouts_in_a_row_on_one_connection"); }
            for (int j = 0; j < 3 && allSettled(); j++) { int k = nreq++; out.emplace_back(new Outcome()); beh.push_back(B_IMMEDIATE); timeoutMs.push_back(0); issue(k, B_IMMEDIATE, 0);
                double e9 = lv::now() + 5.0 * lf; while (!allSettled() && lv::now() < e9) lv::msleep(2); }
        }
        if (scenario == 10 && allSettled()) {
            RawServer srv2; srv2.start(); std::string base2 = "http://127.0.0.1:" + std::to_string(srv2.port);
            struct O2 { int id; std::string host; int role; std::unique_ptr<Outcome> o; };   // role: 0 the slow host's never-answered request, 1 queued behind it, 2 the quick host's requests
            std::vector<O2> o2;
            auto issue2 = [&](const std::string& b0, int id, int bh, int param, int to, int role) { o2.push_back({id, b0, role, std::unique_ptr<Outcome>(new Outcome())}); Outcome* o = o2.back().o.get();
                try { auto rb = client.get(b0 + "/t/" + std::to_string(id) + "/" + std::to_string(bh) + "/" + std::to_string(param)); if (to) rb.timeout(std::chrono::milliseconds(to));
                      rb.send().then([o](Http::Response resp) { int t = -1; sscanf(resp.body().c_str(), "tag=%d;", &t); o->tag = t; o->status = (int)resp.code(); o->at = lv::now(); o->fulfilled++; }, [o](std::exception_ptr) { o->at = lv::now(); o->rejected++; }); }
                catch (const std::exception& e) { o->err = e.what(); o->at = lv::now(); o->rejected++; } };
            for (int round = 0; round < 2; round++) {   // (both assignments of the roles: which host's queue the client looks at first is a matter of hashing)
                const std::string& slow = round == 0 ? base2 : base; const std::string& quick = round == 0 ? base : base2; int id0 = 100000 + round * 100; size_t first = o2.size();
                // the slow host never answers its first request (client time-out 5 s): its only connection stays taken, two more requests wait behind it
                issue2(slow, id0, B_NEVER, 0, 5000, 0); for (int k = 1; k <= 2; k++) issue2(slow, id0 + k, B_IMMEDIATE, 0, 0, 1);
                issue2(quick, id0 + 10, B_DELAYED, 10250, 0, 2); for (int k = 1; k <= 3; k++) issue2(quick, id0 + 10 + k, B_IMMEDIATE, 0, 0, 2);
                double e10 = lv::now() + 12.0 * lf; auto all2 = [&] { for (size_t q = first; q < o2.size(); q++) if (!(o2[q].o->fulfilled.load() + o2[q].o->rejected.load())) return false; return true; };
                while (!all2() && lv::now() < e10) lv::msleep(5);
                // judged by the ORDER of events, not by a duration: every request to the quick host is fulfilled before the slow host's request times out
                double slowEnd = o2[first].o->at.load();
                for (size_t q = first; q < o2.size(); q++) { std::string key; Outcome& o = *o2[q].o; const O2& e = o2[q];
                    if (o.fulfilled.load() + o.rejected.load() > 1) key = "c15:settled-twice:two-hosts";
                    else if (e.role == 0) { if (o.fulfilled.load()) key = "c15:fulfilled-without-answer:two-hosts"; }
                    else if (!o.fulfilled.load() && !o.rejected.load()) key = "c15:request-never-sent-and-never-settled:two-hosts";
                    else if (o.rejected.load()) key = "c15:answered-but-not-fulfilled:two-hosts";
                    else if (o.tag.load() != e.id) key = "c15:wrong-response:two-hosts";
                    else if (e.role == 2 && slowEnd > 0 && o.at.load() > slowEnd) key = "c15:request-held-back-until-another-hosts-connection-was-free:two-hosts";
                    if (!key.empty()) { viol(key, cfg + ": request " + std::to_string(e.id) + " to " + e.host + ": " + key.substr(4) + " (one client, two hosts, one connection each; the other host's connection is taken by a request that is never answered)", Json().num("i", idx).str("config", cfg).num("request", e.id).str("host", e.host).num("role", e.role).num("fulfilled", o.fulfilled.load()).num("rejected", o.rejected.load()).num("tag_received", o.tag.load()).done()); break; }
                    count("two_host_requests"); }
            }
            srv2.shutdown();
        }
        // second wave: once the batch has drained, further requests through the same client must still be served
        // (connections handed back to the pool, nothing left claimed)
        int wave2 = (allSettled() && scenario != 2 && scenario != 3) ? 3 : 0;
        for (int k = 0; k < wave2; k++) {
            out.emplace_back(new Outcome()); beh.push_back(B_IMMEDIATE); timeoutMs.push_back(0);
            Outcome* o = out.back().get(); int id = nreq + k;
            try { client.get(base + "/t/" + std::to_string(id) + "/0/5").send().then([o](Http::Response resp) { int t = -1; sscanf(resp.body().c_str(), "tag=%d;", &t); o->tag = t; o->status = (int)resp.code(); o->fulfilled++; }, [o](std::exception_ptr) { o->rejected++; }); }
            catch (const std::exception& e) { o->err = e.what(); o->rejected++; }
        }
        if (wave2) { nreq += wave2; double e2 = lv::now() + 5.0 * lf; while (!allSettled() && lv::now() < e2) lv::msleep(10); }
        // stampede rounds: with every connection idle, several application threads call send() at the same instant (requests
        // built beforehand, threads released by a spin barrier), so the idle->used claim of one connection is contended
        if ((scenario == 0 || scenario == 4) && allSettled()) {
            // half of the time more threads than connections, so that the overflow queue and its hand-over are part of every round
            int T = r.chance(1, 2) ? std::min(10, maxConn + r.range(1, 3)) : r.range(3, 6), rounds = (int)g_opts.num("stampede", 400); bool stuck = false;
            for (int round = 0; round < rounds && !stuck; round++) {
                int first = nreq;
                for (int t = 0; t < T; t++) { out.emplace_back(new Outcome()); beh.push_back(B_IMMEDIATE); timeoutMs.push_back(0); }
                nreq += T;
                std::atomic<int> ready{0}; std::atomic<bool> go{false}; std::vector<std::thread> it;
                for (int t = 0; t < T; t++) it.emplace_back([&, t] {
                    int id = first + t; Outcome* o = out[(size_t)id].get();
                    auto rb = client.get(base + "/t/" + std::to_string(id) + "/0/3");
                    ready++; while (!go.load(std::memory_order_acquire)) { }
                    try { rb.send().then([o](Http::Response resp) { int tg = -1; sscanf(resp.body().c_str(), "tag=%d;", &tg); o->tag = tg; o->status = (int)resp.code(); o->fulfilled++; }, [o](std::exception_ptr) { o->rejected++; }); }
                    catch (const std::exception& e) { o->err = e.what(); o->rejected++; } });
                while (ready.load() < T) std::this_thread::yield();
                go.store(true, std::memory_order_release);
                for (auto& t : it) t.join();
                double e3 = lv::now() + 4.0 * lf; while (!allSettled() && lv::now() < e3) usleep(200);
                if (!allSettled()) stuck = true;
                count("stampede_rounds");
            }
        }
        std::vector<ReqLog> log; std::vector<std::string> gerr; { std::lock_guard<std::mutex> g(srv.m); log = srv.log; gerr = srv.grammarErrors; }
        std::map<int, ReqLog> byId; for (auto& l : log) byId[l.id] = l;
        // which connection served a late-answered, timed-out request just before?
        auto precededByLate = [&](int id) { auto it = byId.find(id); if (it == byId.end()) return false; const ReqLog* prev = nullptr; for (auto& l : log) { if (l.conn == it->second.conn && l.at < it->second.at && (!prev || l.at > prev->at)) prev = &l; } return prev && prev->behaviour == B_LATE; };
        std::vector<std::tuple<std::string, std::string, std::string>> anomalies;
        for (int k = 0; k < nreq; k++) {
            Outcome& o = *out[(size_t)k]; int b = beh[(size_t)k];
            // a request to the unreachable host: what becomes of it is not part of the statement (no connection is ever established); it must only not be fulfilled
            if ((size_t)k < dead.size() && dead[(size_t)k]) { count("requests_to_a_host_whose_connect_fails_at_once"); if (o.fulfilled) anomalies.emplace_back("c15:fulfilled-without-answer", cfg + ": request " + std::to_string(k) + " to an unreachable host was fulfilled", Json().num("i", idx).str("config", cfg).num("request", k).done()); continue; }
            std::string wt = Json().num("i", idx).str("phase", "c15").str("config", cfg).num("request", k).str("behaviour", BNAME[b]).num("fulfilled", o.fulfilled.load()).num("rejected", o.rejected.load()).num("tag_received", o.tag.load()).done();
            std::string key;
            bool served = byId.count(k) && byId[k].answered;
            if (o.fulfilled + o.rejected > 1) key = "c15:promise-settled-twice:" + std::string(BNAME[b]);
            else if (o.fulfilled && o.tag != k) key = std::string("c15:wrong-response:") + (precededByLate(k) ? "after-late-response-of-timed-out-request" : BNAME[b]);
            else if (o.fulfilled && (b == B_NEVER)) key = "c15:fulfilled-without-answer";
            else if (b == B_NEVER && byId.count(k) && !o.rejected) key = "c15:not-rejected-after-timeout";
            else if (b == B_LATE && byId.count(k) && o.fulfilled == 0 && o.rejected == 0) key = "c15:not-rejected-after-timeout";
            else if (served && b != B_LATE && b != B_CLOSE_AFTER && !o.fulfilled && !((size_t)k < lenient.size() && lenient[(size_t)k] && o.rejected == 1)) {
                // the server answered it: the promise must be fulfilled (a rejection is only legitimate when the connection was lost)
                bool connLost = false; for (auto& l : log) if (l.conn == byId[k].conn && l.behaviour == B_CLOSE_AFTER) connLost = true;
                if (!connLost) key = std::string("c15:answered-but-not-fulfilled:") + (precededByLate(k) ? "after-late-response-of-timed-out-request" : o.rejected ? "rejected" : "unsettled");
            }
            else if (scenario == 7 && !byId.count(k) && o.rejected && !o.fulfilled) key = "c15:rejected-without-being-sent";   // (at most 520 requests wait at once: the overflow queue is never legitimately full)
            else if (!byId.count(k) && o.fulfilled + o.rejected == 0) { if (truncated) { count("requests_not_judged_batch_cut_short"); } else key = "c15:request-never-sent-and-never-settled"; }
            if (!key.empty()) anomalies.emplace_back(key, cfg + ": request " + std::to_string(k) + " (" + BNAME[b] + "): " + key.substr(4), wt);
            count(std::string("requests_") + BNAME[b]);
        }
        // A response that arrives after its request timed out poisons that connection (recorded finding); what follows in
        // the same batch on the wedged connections is a consequence of it and is attributed to it, not reported on its own.
        bool primary = false; for (auto& a : anomalies) if (std::get<0>(a) == "c15:wrong-response:after-late-response-of-timed-out-request" || std::get<0>(a) == "c15:answered-but-not-fulfilled:after-late-response-of-timed-out-request") primary = true;
        // the same poisoning without its first symptom being visible (the request that followed the late response on that connection
        // was itself one that times out): the server log shows a connection that got a late response and was used again afterwards
        { std::map<int, double> poisonAt; for (auto& l : log) if (l.behaviour == B_LATE && l.answered) { auto it = poisonAt.find(l.conn); if (it == poisonAt.end() || l.at < it->second) poisonAt[l.conn] = l.at; }
          for (auto& l : log) { auto it = poisonAt.find(l.conn); if (it != poisonAt.end() && l.at > it->second) primary = true; } }
        // Likewise a connection that the server closes after a response while requests are queued behind it or being written
        // to it (recorded finding): requests are then never sent / never settled.  Only those symptoms are attributed.
        bool serverClosed = false; for (auto& l : log) if (l.behaviour == B_CLOSE_AFTER && l.answered) serverClosed = true;
        for (auto& a : anomalies) {
            std::string key = std::get<0>(a);
            if (primary && key.find("after-late-response-of-timed-out-request") == std::string::npos) key += ":in-batch-with-late-response-mixup";
            // (a connection object whose socket the server closed keeps its parser state and is connected again for a later request:
            // never-sent / never-settled requests and responses delivered to the wrong request are all symptoms of that one finding;
            // a promise settled twice is not)
            else if (serverClosed && key.rfind("c15:promise-settled-twice", 0) != 0) key += ":in-batch-with-server-closed-connections";
            viol(key, std::get<1>(a), std::get<2>(a));
        }
        if (srv.peak.load() > maxConn) viol("c15:too-many-connections", cfg + ": " + std::to_string(srv.peak.load()) + " simultaneous connections", Json().num("i", idx).str("config", cfg).num("peak", srv.peak.load()).done());
        for (auto& e : gerr) viol("c05:client-request:" + e.substr(0, e.find(" |")).substr(0, 50), "request emitted by the client is not well-formed: " + e, Json().num("i", idx).str("config", cfg).str("detail", e).done());
        g_distinct.add(std::to_string(threads) + "|" + std::to_string(maxConn) + "|" + std::to_string(nreq > maxConn) + "|" + std::to_string(scenario) + "|" + std::to_string(nreq / 8) + "|" + std::to_string(issuers > 1));
        count("batches"); count("requests", nreq);
        { std::lock_guard<std::mutex> g(g_cm); g_counts["peak_connections_max"] = std::max<long>(g_counts["peak_connections_max"], srv.peak.load()); }
        if (g_samples_left > 0) { g_samples_left--; sample(Json().str("config", cfg).num("server_saw_requests", (long long)log.size()).num("peak_connections", srv.peak.load()).done()); }
        client.shutdown();
        srv.shutdown();
        (void)n;
    }
    g_distinct.flush();
#if LV_INTERPOSE
    if (lv::ip().pollDelays.load()) g_counts["poll_delays_injected"] = lv::ip().pollDelays.load();   // (this batch runs in a child of its own)
#endif
    Json s; s.str("t", "batchsum").num("evaluations", g_evals);
    Json c; for (auto& kv : g_counts) c.num(kv.first, kv.second);
    s.raw("counts", c.done());
    emit(s.done());
}
// ------------------------------------------------------------------ C04 at the client: a response after a FAILED response on the same pooled connection
static void run_c04c(long cases) {
    Rng r(g_opts.seed * 5021 + (uint64_t)g_opts.shard);
    static const int PRED[] = {B_TOOLONG_ONE_PACKET, B_TOOLONG_SECOND_PACKET, B_BAD_STATUS_LINE, B_BAD_COOKIE, B_BAD_CHUNK_SIZE, B_BOTH_FRAMINGS};
    static const char* PNAME[] = {"too-long-in-the-first-packet", "too-long-from-the-second-packet-on", "bad-status-line", "bad-set-cookie-value", "bad-chunk-size", "content-length-and-chunked"};
    for (long n = 0; n < cases; n++) {
        long idx = g_opts.shard * 100000L + n;
        int pk = (int)((n + g_opts.shard) % 6);
        RawServer srv; srv.start();
        Http::Experimental::Client client;
        client.init(Http::Experimental::Client::options().threads(1).maxConnectionsPerHost(1).maxResponseSize(256));
        std::string base = "http://127.0.0.1:" + std::to_string(srv.port);
        std::string wt = Json().num("i", idx).str("phase", "c04-client").str("predecessor", PNAME[pk]).done();
        set_case(idx, wt);
        double lf = lv::load_factor();
        // reference: the successor's response on a fresh connection is "tag=<id>;" + filler, status 200 (scripted server)
        std::atomic<int> d1{0}, d2{0}; int ok1 = 0, ok2 = 0; std::string body2; int code2 = 0; bool oldHeader = false;
        int param1 = PRED[pk] <= B_TOOLONG_SECOND_PACKET ? r.range(300, 900) : 0;
        client.get(base + "/t/1/" + std::to_string(PRED[pk]) + "/" + std::to_string(param1)).send().then([&](Http::Response) { ok1 = 1; d1 = 1; }, [&](std::exception_ptr) { d1 = 1; });
        wait_for([&] { return d1.load() == 1; }, 5.0 * lf);
        lv::msleep(r.range(0, 60));
        int param2 = r.range(0, 90);
        client.get(base + "/t/2/0/" + std::to_string(param2)).send().then([&](Http::Response resp) { ok2 = 1; body2 = resp.body(); code2 = (int)resp.code(); oldHeader = resp.headers().tryGetRaw("X-Old").has_value(); d2 = 1; }, [&](std::exception_ptr) { d2 = 1; });
        bool fin = wait_for([&] { return d2.load() == 1; }, 5.0 * lf);
        g_evals++;
        std::string want = "tag=2;" + std::string((size_t)param2, 'x'); std::string key, detail;
        int conns = srv.conns.load();
        if (d1.load() == 1 && ok1 == 0) {   // the predecessor failed as intended; a predecessor that the client accepted is not a case
            if (conns == 1) {               // and the successor went over the same connection
                if (!fin) key = "unsettled";
                else if (!ok2) key = "rejected";
                else if (code2 != 200 || body2 != want) { key = "differs-from-a-fresh-connection"; detail = "status " + std::to_string(code2) + ", body of " + std::to_string(body2.size()) + " bytes '" + body2.substr(0, 40) + "', want '" + want.substr(0, 40) + "'"; }
                else if (oldHeader) key = "carries-a-header-of-the-failed-response";
                count("c04_client_successor_on_same_connection");
            } else count("c04_client_successor_on_new_connection");
        } else count("c04_client_predecessor_not_failed");
        if (!key.empty()) viol(std::string("c04:client:after-failed-response:") + PNAME[pk] + ":" + key, "response after a failed one (" + std::string(PNAME[pk]) + ") on the same pooled connection: " + key + " " + detail, wt);
        g_distinct.add(std::string("c04c|") + PNAME[pk] + "|" + std::to_string(param2 / 30));
        client.shutdown(); srv.shutdown();
    }
}
#include <sys/wait.h>
// every batch runs in a forked child under a watchdog: a wedged client (dead-lock, shutdown that never returns) is a witness
static void run_c15(long cases) {
    Rng r(g_opts.seed * 5003 + (uint64_t)g_opts.shard);
    for (long n = 0; n < cases; n++) {
        long idx = g_opts.shard * 100000L + n;
        uint64_t seed = r.next();
        int scenario = (int)((n + g_opts.shard) % 11);
        // a batch that the watchdog has to stop is run once more, with a bound more than twice as long, before it counts as wedged: on a machine
        // that is busy enough (load 50+, seen) a batch of sixty 0.6 s requests over one connection does not fit the first bound
        int status = 0; bool exited = false; pid_t pid = -1;
        for (int attempt = 0; attempt < 2 && !exited; attempt++) {
            if (attempt) { kill(pid, SIGKILL); waitpid(pid, &status, 0); count("batches_run_again_after_the_watchdog"); }
            pid = fork();
            if (pid == 0) { c15_batch(idx, n, seed); _exit(0); }
            double end = lv::now() + (attempt ? 60.0 : 25.0) * lv::load_factor();
            while (lv::now() < end) { pid_t w = waitpid(pid, &status, WNOHANG); if (w == pid) { exited = true; break; } lv::msleep(20); }
        }
        if (!exited) { kill(pid, SIGKILL); waitpid(pid, &status, 0);
            viol(std::string("c15:client-hangs:scenario-") + std::to_string(scenario), "a batch (scenario " + std::to_string(scenario) + ") did not finish: the client is wedged (requests never settled or shutdown() never returns)", Json().num("i", idx).num("scenario", scenario).done()); }
        else if (WIFEXITED(status) && WEXITSTATUS(status) != 0) viol("c15:client-crashes:scenario-" + std::to_string(scenario), "the client process crashed (handler exit " + std::to_string(WEXITSTATUS(status)) + ", see the crash record) in scenario " + std::to_string(scenario), Json().num("i", idx).num("scenario", scenario).done());
        else if (WIFSIGNALED(status)) viol("c15:client-crashes:signal-" + std::to_string(WTERMSIG(status)), "the client process died with signal " + std::to_string(WTERMSIG(status)) + " in scenario " + std::to_string(scenario), Json().num("i", idx).num("scenario", scenario).done());
        g_evals++;
    }
    { long again = g_counts["batches_run_again_after_the_watchdog"]; g_counts.clear(); if (again) g_counts["batches_run_again_after_the_watchdog"] = again; }
}

// =====================================================================================
// C02
struct Intent {
    Http::Method method; std::string path; std::map<std::string, std::string> query;
    std::vector<std::pair<std::string, std::string>> headers;    // typed name -> text
    std::set<std::pair<std::string, std::string>> cookies;
    std::string body;
    // response side
    int code; std::vector<std::pair<std::string, std::string>> rheaders; std::set<std::pair<std::string, std::string>> rcookies; bool rcookieAttrs = false; long rcookieMaxAge = -1; long long rcookieExpires = -1; bool rmoveStream = false;
    int rkind; std::string rbody; std::vector<size_t> rchunks;
};
static std::mutex g_im;
static std::map<std::string, Intent*> g_intents;
struct SeenReq { std::string method, path, body; std::map<std::string, std::string> query; std::map<std::string, std::string> typed; std::set<std::pair<std::string, std::string>> cookies; int count = 0; };
static std::map<std::string, SeenReq> g_seen;
static std::string hdr_text(const std::shared_ptr<const Http::Header::Header>& h) { std::ostringstream os; h->write(os); return os.str(); }
struct EchoHandler : public Http::Handler {
    HTTP_PROTOTYPE(EchoHandler)
    void onRequest(const Http::Request& req, Http::ResponseWriter response) override {
        Intent* in = nullptr;
        { std::lock_guard<std::mutex> g(g_im); auto it = g_intents.find(req.resource()); if (it != g_intents.end()) in = it->second;
          SeenReq& s = g_seen[req.resource()]; s.count++; s.method = Http::methodString(req.method()); s.path = req.resource(); s.body = req.body();
          for (auto it2 = req.query().parameters_begin(); it2 != req.query().parameters_end(); ++it2) s.query[it2->first] = it2->second;
          for (auto& h : req.headers().list()) { std::ostringstream os; h->write(os); s.typed[h->name()] = os.str(); }
          for (auto c = req.cookies().begin(); c != req.cookies().end(); ++c) s.cookies.insert({c->name, c->value}); }
        if (!in) { response.send(Http::Code::Ok, "no-intent"); return; }
        using namespace Http::Header;
        for (auto& h : in->rheaders) {
            if (h.first == "Server") response.headers().add<Server>(h.second);
            else if (h.first == "Location") response.headers().add<Location>(h.second);
            else if (h.first == "Access-Control-Allow-Origin") response.headers().add<AccessControlAllowOrigin>(h.second);
            else if (h.first == "Content-Type") response.headers().add<ContentType>(Http::Mime::MediaType::fromString(h.second));
        }
        for (auto& c : in->rcookies) { Http::Cookie ck(c.first, c.second); if (in->rcookieAttrs) { ck.path = std::string("/p"); ck.secure = true; } if (in->rcookieMaxAge >= 0) ck.maxAge = (int)in->rcookieMaxAge; if (in->rcookieExpires >= 0) ck.expires = Http::FullDate(std::chrono::system_clock::time_point(std::chrono::seconds(in->rcookieExpires))); response.cookies().add(ck); }
        if (in->rkind == 0) response.send((Http::Code)in->code, in->rbody);
        else if (in->rmoveStream) {   // the stream object changes hands (move construction, then move assignment) before anything has been flushed
            auto st0 = response.stream((Http::Code)in->code); Http::ResponseStream st1(std::move(st0)); auto holder = std::make_unique<Http::ResponseStream>(std::move(st1)); Http::ResponseStream& st = *holder;
            size_t pos = 0; for (size_t c : in->rchunks) { st.write(in->rbody.data() + pos, (std::streamsize)c); pos += c; if (c % 2) st << Http::flush; } st << Http::ends; }
        else { auto st = response.stream((Http::Code)in->code); size_t pos = 0; for (size_t c : in->rchunks) { st.write(in->rbody.data() + pos, (std::streamsize)c); pos += c; if (c % 2) st << Http::flush; } st << Http::ends; }
    }
};
static void run_c02(long cases) {
    Rng r(g_opts.seed * 5011 + (uint64_t)g_opts.shard);
    Http::Endpoint ep(Address(Ipv4::loopback(), Port(0)));
    // (read time-outs far away: the server answers a pooled connection that has been idle for the time-out - 60 s by default - with 408 and
    // closes it; the client would take that for the answer to its next request on that connection, which is C15's recorded finding about
    // connections closed by the server, not a round-trip matter.  Seen in a thorough run of several minutes under load.)
    ep.init(Http::Endpoint::options().threads(2).flags(Tcp::Options::ReuseAddr).maxRequestSize(64 * 1024).maxResponseSize(8u << 20).headerTimeout(std::chrono::hours(6)).bodyTimeout(std::chrono::hours(6)));
    ep.setHandler(Http::make_handler<EchoHandler>());
    ep.serveThreaded();
    int port = ep.getPort();
    Http::Experimental::Client client;
    client.init(Http::Experimental::Client::options().threads(1).maxConnectionsPerHost(4));
    std::string base = "http://127.0.0.1:" + std::to_string(port);
    static const Http::Method METHODS[] = {Http::Method::Get, Http::Method::Post, Http::Method::Put, Http::Method::Patch, Http::Method::Delete, Http::Method::Options, Http::Method::Head, Http::Method::Trace, Http::Method::Connect};
    static const int CODES[] = {200, 201, 202, 203, 206, 300, 301, 302, 400, 401, 403, 404, 405, 409, 418, 429, 500, 501, 503, 599};
    for (long n = 0; n < cases; n++) {
        long idx = g_opts.shard * 1000000L + n;
        Intent in;
        in.method = METHODS[r.below(r.chance(2, 3) ? 5 : 9)];
        if (in.method == Http::Method::Head) in.method = Http::Method::Get;   // a HEAD response has no body to compare
        in.path = "/c" + std::to_string(idx) + "/" + mg::tok(r, 0, 16, "abcdefghijklmnopqrstuvwxyzABCXYZ0123456789-._~");
        int nq = r.range(0, 4); for (int k = 0; k < nq; k++) in.query[mg::tok(r, 1, 8, "abcdefghijklmnopqrstuvwxyz0123456789-._~")] = mg::tok(r, 0, 10, "abcdefghijklmnopqrstuvwxyzABC0123456789-._~");
        int nh = r.range(0, 5); std::set<std::string> used;
        static const char* HN[] = {"Server", "Location", "Authorization", "Access-Control-Allow-Origin", "Content-Type", "Cache-Control", "Expect", "Date", "Connection", "Content-Encoding", "Host"};
        for (int k = 0; k < nh; k++) { std::string hn = r.pick(HN); if (!used.insert(hn).second) continue;
            // (a Host set by the caller - a virtual host other than the address connected to - is a header like any other)
            std::string v = hn == "Host" ? mg::tok(r, 1, 10, "abcdefghijklmnopqrstuvwxyz0123456789") + ".example.org:" + std::to_string(r.range(1, 65535)) : hn == "Content-Type" ? (r.chance(1, 2) ? "application/json" : "text/plain; charset=utf-8") : hn == "Cache-Control" ? "max-age=" + std::to_string(r.range(0, 9999)) : hn == "Expect" ? "100-continue" : hn == "Date" ? "Sun, 06 Nov 1994 08:49:37.000000000 UTC" : hn == "Connection" ? "Keep-Alive" : hn == "Content-Encoding" ? "gzip" : hn == "Authorization" ? "Bearer " + mg::tok(r, 1, 20, mg::TOKCH) : mg::tok(r, 1, 20, mg::TOKCH);
            in.headers.push_back({hn, v}); }
        int nc = r.range(0, 6); for (int k = 0; k < nc; k++) in.cookies.insert({mg::tok(r, 1, 6, mg::CKNAME), mg::tok(r, 0, 10, mg::CKVAL)});
        { int w = r.range(0, 5); int bl = w == 0 ? 0 : w == 1 ? 1 : w == 2 ? r.range(2, 100) : w == 3 ? r.range(100, 4000) : r.range(4000, 16000); in.body = mg::octets(r, bl, r.range(0, 3)); if (w == 5 && !in.body.empty()) in.body.back() = '\r'; }
        in.code = r.pick(CODES);
        static const char* RN[] = {"Server", "Location", "Access-Control-Allow-Origin", "Content-Type"};
        int rh = r.range(0, 3); std::set<std::string> ru; for (int k = 0; k < rh; k++) { std::string hn = r.pick(RN); if (!ru.insert(hn).second) continue; in.rheaders.push_back({hn, hn == "Content-Type" ? "application/json" : mg::tok(r, 1, 20, mg::TOKCH)}); }
        int rc = r.range(0, 3); for (int k = 0; k < rc; k++) in.rcookies.insert({mg::tok(r, 1, 6, mg::CKNAME), mg::tok(r, 1, 10, mg::CKVAL)});
        in.rcookieAttrs = r.chance(1, 3);
        if (r.chance(1, 4)) { static const long MA[] = {0, 1, 3600, 2147483639L, 2147483640L, 2147483646L, 2147483647L}; in.rcookieMaxAge = r.chance(1, 4) ? (long)r.below(2147483648ull) : r.pick(MA); }
        // an expiry date on the response cookies: any second from 1970 to 2200 (the years in which a two-digit or week-based year would differ included)
        if (r.chance(1, 3)) { static const long long EX[] = {0, 946684800LL, 2147483647LL, 3124223999LL, 3124224000LL, 4102444800LL, 4133980799LL, 7258118400LL, 1609459200LL, 1546214400LL}; in.rcookieExpires = r.chance(1, 2) ? r.pick(EX) : (long long)r.below(7258118400ull); }
        // now and then one header value (or a response cookie) is large, so that the head of the message crosses the 4096-byte reads of both sides
        if (r.chance(1, 6)) { std::string big = mg::tok(r, 3000, 7000, "abcdefghijklmnopqrstuvwxyzABCDEFGHIJKLMNOPQRSTUVWXYZ0123456789-._~"); bool placed = false; for (auto& h : in.headers) if (!placed && (h.first == "Authorization" || h.first == "Location" || h.first == "Server")) { h.second = h.first == "Authorization" ? "Bearer " + big : big; placed = true; } if (!placed && !used.count("Authorization")) in.headers.insert(in.headers.begin() + (long)r.below(in.headers.size() + 1), {"Authorization", "Bearer " + big}); }
        if (r.chance(1, 6)) { std::string big = mg::tok(r, 3000, 7000, "abcdefghijklmnopqrstuvwxyzABCDEFGHIJKLMNOPQRSTUVWXYZ0123456789"); if (r.chance(1, 2)) in.rcookies.insert({"big", big}); else { bool placed = false; for (auto& h : in.rheaders) if (!placed && h.first != "Content-Type") { h.second = big; placed = true; } if (!placed) in.rheaders.insert(in.rheaders.begin(), {"Server", big}); } }
        in.rkind = r.chance(1, 3) ? 1 : 0; in.rmoveStream = r.chance(1, 3);
        if (in.rkind == 0) { int bl = r.chance(1, 5) ? 0 : r.range(1, 20000); in.rbody = mg::octets(r, bl, r.range(0, 3)); }
        else { int nchunks = r.range(0, 8); static const size_t SZ[] = {1, 15, 16, 255, 256, 4095, 4096, 65535, 65536}; for (int k = 0; k < nchunks; k++) { size_t c = r.chance(1, 2) ? r.pick(SZ) : (size_t)r.range(1, 3000); in.rchunks.push_back(c); in.rbody += mg::octets(r, (int)c, r.range(0, 3)); } }
        { std::lock_guard<std::mutex> g(g_im); g_intents[in.path] = &in; }
        // segmentation forced on both ends: every read of the server (request) and of the client (response) returns at most 1..cap bytes
        static const int RCAPS[] = {0, 0, 0, 1, 2, 5, 23, 300, 2000};
        int rcap = r.pick(RCAPS);
#if LV_INTERPOSE
        lv::ip().enabled = true; lv::ip().globalRecvCapMax = rcap;
#else
        rcap = 0;
#endif
        std::string wt = Json().num("i", idx).str("phase", "c02").num("read_cap", rcap).str("method", Http::methodString(in.method)).str("path", in.path).num("query", (long long)in.query.size()).num("headers", (long long)in.headers.size()).num("cookies", (long long)in.cookies.size()).num("body", (long long)in.body.size())
                             .num("response_code", in.code).str("response_kind", in.rkind ? "stream" : "fixed").num("response_body", (long long)in.rbody.size()).num("response_chunks", (long long)in.rchunks.size()).done();
        set_case(idx, wt);
        auto rb = client.get(base + in.path);
        rb.method(in.method);
        if (!in.query.empty()) { Http::Uri::Query q; for (auto& kv : in.query) q.add(kv.first, kv.second); rb.params(q); }
        using namespace Http::Header;
        for (auto& h : in.headers) {
            if (h.first == "Server") rb.header<Server>(h.second);
            else if (h.first == "Location") rb.header<Location>(h.second);
            else if (h.first == "Authorization") rb.header<Authorization>(h.second);
            else if (h.first == "Access-Control-Allow-Origin") rb.header<AccessControlAllowOrigin>(h.second);
            else if (h.first == "Content-Type") rb.header<ContentType>(Http::Mime::MediaType::fromString(h.second));
            else if (h.first == "Cache-Control") rb.header<CacheControl>(Http::CacheDirective(Http::CacheDirective::MaxAge, std::chrono::seconds(atol(h.second.c_str() + 8))));
            else if (h.first == "Expect") rb.header<Expect>(Http::Expectation::Continue);
            else if (h.first == "Date") rb.header<Date>(Http::FullDate(std::chrono::system_clock::time_point(std::chrono::seconds(784111777))));
            else if (h.first == "Connection") rb.header<Connection>(Http::ConnectionControl::KeepAlive);
            else if (h.first == "Content-Encoding") rb.header<ContentEncoding>(Encoding::Gzip);
            else if (h.first == "Host") rb.header<Host>(h.second);
        }
        // a cookie that is sent back as it was received carries attributes (Path, Domain, Max-Age, Secure, ...): a request's Cookie
        // header lists name=value pairs only, and that is all the server may see
        bool reqCookieAttrs = r.chance(1, 3);
        for (auto& c : in.cookies) { Http::Cookie ck(c.first, c.second);
            if (reqCookieAttrs) { int m = r.range(1, 127); if (m & 1) ck.path = std::string("/p"); if (m & 2) ck.domain = std::string("example.org"); if (m & 4) ck.maxAge = r.range(0, 100000); if (m & 8) ck.secure = true; if (m & 16) ck.httpOnly = true;
                if (m & 32) ck.expires = Http::FullDate(std::chrono::system_clock::time_point(std::chrono::seconds(1700000000))); if (m & 64) ck.ext["SameSite"] = "Lax"; }
            rb.cookie(ck); }
        if (reqCookieAttrs && !in.cookies.empty()) count("requests_with_attributed_cookies");
        if (!in.body.empty()) rb.body(in.body);
        std::atomic<int> done{0}; int gotCode = 0; std::string gotBody; std::map<std::string, std::string> gotTyped; std::set<std::string> gotCookies; bool rejected = false;
        rb.send().then([&](Http::Response resp) { gotCode = (int)resp.code(); gotBody = resp.body(); for (auto& h : resp.headers().list()) { std::ostringstream os; h->write(os); gotTyped[h->name()] = os.str(); }
                           for (auto c = resp.cookies().begin(); c != resp.cookies().end(); ++c) gotCookies.insert(c->name + "=" + c->value + "|path=" + (c->path ? *c->path : std::string("-")) + "|secure=" + (c->secure ? "1" : "0") + "|maxage=" + (c->maxAge ? std::to_string(*c->maxAge) : std::string("-")) + "|expires=" + (c->expires ? std::to_string((long long)std::chrono::duration_cast<std::chrono::seconds>(c->expires->date().time_since_epoch()).count()) : std::string("-")) + "|ext=" + std::to_string(c->ext.size())); done = 1; },
                       [&](std::exception_ptr) { rejected = true; done = 1; });
        bool fin = wait_for([&] { return done.load() == 1; }, 10.0 * lv::load_factor());
        g_evals++;
        std::string key, detail;
        SeenReq seen; bool have; { std::lock_guard<std::mutex> g(g_im); have = g_seen.count(in.path) > 0; if (have) seen = g_seen[in.path]; g_seen.erase(in.path); g_intents.erase(in.path); }
        if (!have) key = "c02:request:not-delivered";
        else {
            if (seen.count != 1) key = "c02:request:delivered-" + std::to_string(seen.count) + "-times";
            else if (seen.method != Http::methodString(in.method)) { key = "c02:request:method"; detail = seen.method; }
            else if (seen.query != in.query) { key = "c02:request:query"; detail = std::to_string(seen.query.size()) + " parameters seen, " + std::to_string(in.query.size()) + " sent"; }
            else if (seen.body != in.body) { key = "c02:request:body"; detail = std::to_string(seen.body.size()) + " bytes seen, " + std::to_string(in.body.size()) + " sent"; }
            else if (seen.cookies != in.cookies) { key = "c02:request:cookies"; detail = std::to_string(seen.cookies.size()) + " seen, " + std::to_string(in.cookies.size()) + " sent"; }
            else for (auto& h : in.headers) { auto it = seen.typed.find(h.first); if (it == seen.typed.end()) { key = "c02:request:header-missing:" + h.first; break; } if (it->second != h.second) { key = "c02:request:header-value:" + h.first; detail = "'" + it->second + "' want '" + h.second + "'"; break; } }
        }
        if (key.empty()) {
            if (!fin) key = "c02:response:promise-unsettled";
            else if (rejected) key = "c02:response:rejected";
            else if (gotCode != in.code) { key = "c02:response:status"; detail = std::to_string(gotCode); }
            else if (gotBody != in.rbody) { key = std::string("c02:response:body:") + (in.rkind ? "stream" : "fixed"); detail = std::to_string(gotBody.size()) + " bytes received, " + std::to_string(in.rbody.size()) + " written"; }
            else {
                for (auto& h : in.rheaders) { auto it = gotTyped.find(h.first); if (it == gotTyped.end()) { key = "c02:response:header-missing:" + h.first; break; } if (it->second != h.second) { key = "c02:response:header-value:" + h.first; detail = it->second; break; } }
                std::set<std::string> want; for (auto& c : in.rcookies) want.insert(c.first + "=" + c.second + "|path=" + (in.rcookieAttrs ? "/p" : "-") + "|secure=" + (in.rcookieAttrs ? "1" : "0") + "|maxage=" + (in.rcookieMaxAge >= 0 ? std::to_string(in.rcookieMaxAge) : std::string("-")) + "|expires=" + (in.rcookieExpires >= 0 ? std::to_string(in.rcookieExpires) : std::string("-")) + "|ext=0");
                if (key.empty() && gotCookies != want) { key = "c02:response:cookies"; detail = std::to_string(gotCookies.size()) + " received, " + std::to_string(want.size()) + " set"; }
            }
        }
        if (!key.empty()) viol(key, wt + " " + detail, Json().num("i", idx).str("phase", "c02").str("case", wt).str("detail", detail).done());
        g_distinct.add(std::string(Http::methodString(in.method)) + "|" + std::to_string(in.query.size()) + "|" + std::to_string(in.headers.size()) + "|" + std::to_string(in.cookies.size()) + "|" + (in.body.empty() ? "0" : in.body.size() < 100 ? "s" : "L") + "|" + std::to_string(in.rkind) + "|" + std::to_string(in.rchunks.size()) + "|" + std::to_string(in.code / 100) + "|cap" + std::to_string(rcap));
        count("round_trips"); if (rcap) count("round_trips_with_capped_reads");
        if (g_samples_left > 0 && (n % 61) == 5) { g_samples_left--; sample(wt); }
    }
#if LV_INTERPOSE
    g_counts["reads_cut_short"] += lv::ip().globalRecvCapped.load(); lv::ip().globalRecvCapMax = 0;
    if (g_counts["round_trips_with_capped_reads"] > 0 && g_counts["reads_cut_short"] == 0) { fprintf(stderr, "harness failure: the recv interposer never cut a read short\n"); _exit(3); }
#endif
    // boundary sweep: one streamed chunk of n bytes + a 4-byte tail chunk, n swept so that the end of a chunk's data (or the
    // middle of its CRLF) falls on every offset around the client's 4096-byte read boundary
    if (g_opts.shard == 0) {
        for (int nsz = 3860; nsz <= 4110; nsz++) {
            Intent in; in.method = Http::Method::Get; in.path = "/sweep" + std::to_string(nsz); in.code = 200; in.rkind = 1; in.rchunks = {(size_t)nsz, 4};
            in.rbody = mg::octets(r, nsz + 4, 2);
            { std::lock_guard<std::mutex> g(g_im); g_intents[in.path] = &in; }
            std::atomic<int> done{0}; std::string gotBody; bool rejected = false; int gotCode = 0;
            client.get(base + in.path).send().then([&](Http::Response resp) { gotCode = (int)resp.code(); gotBody = resp.body(); done = 1; }, [&](std::exception_ptr) { rejected = true; done = 1; });
            bool fin = wait_for([&] { return done.load() == 1; }, 10.0 * lv::load_factor());
            g_evals++;
            { std::lock_guard<std::mutex> g(g_im); g_seen.erase(in.path); g_intents.erase(in.path); }
            std::string wt = Json().str("phase", "c02-sweep").num("chunk", nsz).done();
            if (!fin || rejected || gotCode != 200 || gotBody != in.rbody)
                viol(std::string("c02:response:body:stream-at-read-boundary:") + (!fin ? "unsettled" : rejected ? "rejected" : "differs"), "streamed response with a " + std::to_string(nsz) + "-byte chunk + 4-byte chunk: " + (!fin ? "promise unsettled" : rejected ? "promise rejected" : "body differs"), wt);
            g_distinct.add("sweep|" + std::to_string(nsz));
            count("boundary_sweep");
        }
    }
    client.shutdown();
    ep.shutdown();
}

int main(int argc, char** argv) {
    g_opts = parse_opts(argc, argv);
#if LV_INTERPOSE
    lv::ip().pollDelayMaxMs = (int)g_opts.num("poll-delay", 0);   // see live.h: loop threads come back to their pollers late
#endif
    install_handlers();
    std::string prop = g_opts.get("prop", "c15");
    if (prop == "c15") run_c15(g_opts.cases); else if (prop == "c04c") run_c04c(g_opts.cases); else run_c02(g_opts.cases);
    g_distinct.flush();
    Json s; s.str("t", "sum").num("evaluations", g_evals);
#if LV_INTERPOSE
    if (lv::ip().pollDelays.load()) g_counts["poll_delays_injected"] = lv::ip().pollDelays.load();
#endif
    Json c; for (auto& kv : g_counts) c.num(kv.first, kv.second);
    s.raw("counts", c.done());
    emit(s.done());
    _exit(0);
}
