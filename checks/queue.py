from checks import coop
def run(pid, tier, seed, replay=None):
    return coop.run_c13(tier, seed, replay)
