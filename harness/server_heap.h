// C08, heap census: "all per-connection state is released ... however many connections were served".
// Descriptors, the peer table and the Peer objects are watched by run_c08; this stage watches everything else the framework
// allocates per connection (parser, write-queue entries, timer entries, bookkeeping maps): the bytes held through operator new
// (exact: malloc_usable_size of every live block, counted by replaced operator new/delete in server.cc) are read at quiescence
// after each of several identical intervals of N scripted connections.  State that is released shows as a flat line; state that
// is kept - reachable or not - shows as a line that keeps rising with the number of connections served.  The verdict is on growth
// that continues over two windows, not on one difference (one-off growth - buckets of a hash table, a vector's capacity, lazily
// built tables - is legitimate), with a per-connection threshold far below the smallest per-connection object of the framework.
// Handlers of this stage record nothing (atomic counters only), so the harness itself holds no per-connection memory.

struct CensusTcpHandler : public Tcp::Handler {
    PROTOTYPE_OF(Tcp::Handler, CensusTcpHandler)
    static std::atomic<long>& conns() { static std::atomic<long> v{0}; return v; }
    static std::atomic<long>& discs() { static std::atomic<long> v{0}; return v; }
    void onConnection(const std::shared_ptr<Tcp::Peer>&) override { conns()++; }
    void onDisconnection(const std::shared_ptr<Tcp::Peer>&) override { discs()++; }
    void onInput(const char* buffer, size_t len, const std::shared_ptr<Tcp::Peer>& peer) override {
        bool big = len >= 3 && memmem(buffer, len, "BIG", 3) != nullptr;
        if (!memchr(buffer, '\n', len)) return;
        std::string reply = big ? std::string(1 << 20, 'z') : std::string("ok:") + std::string(buffer, std::min<size_t>(len, 16));
        transport()->asyncWrite(peer->fd(), RawBuffer(reply, reply.size()));
    }
};
struct CensusHttpHandler : public Http::Handler {
    HTTP_PROTOTYPE(CensusHttpHandler)
    void onRequest(const Http::Request& req, Http::ResponseWriter response) override {
        const std::string& res = req.resource();
        if (res.rfind("/armed", 0) == 0) response.timeoutAfter(std::chrono::milliseconds(atoi(req.query().get("ms").value_or("300").c_str())));
        if (res == "/stream") {
            auto st = response.stream(Http::Code::Ok); std::string chunk(20000, 's');
            for (int k = 0; k < 4; k++) { st.write(chunk.data(), (std::streamsize)chunk.size()); try { st << Http::flush; } catch (const std::exception&) { break; } lv::msleep(3); }
            try { st << Http::ends; } catch (const std::exception&) { }
            return;
        }
        if (res == "/big") { response.send(Http::Code::Ok, std::string(1 << 20, 'z')); return; }
        if (res == "/cookies") { response.cookies().add(Http::Cookie("a", "1")); response.cookies().add(Http::Cookie("b", "2")); response.headers().add<Http::Header::Server>("census"); }
        response.send(Http::Code::Ok, "ok");
    }
    void onDisconnection(const std::shared_ptr<Tcp::Peer>&) override { CensusTcpHandler::discs()++; }
};
static const char* CENSUS_BEHAVIOUR[] = {"connect-close", "partial-then-close", "exchange-then-close", "half-close-then-read", "reset-after-request", "reset-with-pending-1MiB-response",
                                         "armed-response-time-out-answered-before", "keep-alive-4-requests", "streamed-response-then-reset", "request-with-cookies-and-body", "refused-request-(bad-or-too-large)-then-close",
                                         "silence-until-the-idle-time-out"};
static void census_client(int port, int b, bool http, Rng& r) {
    lv::Conn c; if (!c.open_to(port, b == 5 ? 2048 : 0)) return;
    std::string buf;
    auto req = [&](const std::string& path) { return http ? "GET " + path + " HTTP/1.1\r\nHost: x\r\nConnection: keep-alive\r\n\r\n" : "hello " + path + "\n"; };
    auto reply = [&]() { if (http) { lv::read_response(c, buf, 0, (int)(3000 * lv::load_factor())); buf.clear(); } else { std::string got; double end = lv::now() + 3.0 * lv::load_factor(); while (got.size() < 9 && lv::now() < end) c.read_some(got, 100); } };
    switch (b) {
    case 0: break;
    case 1: c.send_all(http ? "GET /par" : "hel"); break;
    case 2: c.send_all(req("/x")); reply(); break;
    case 3: c.send_all(req("/x")); c.half_close(); { bool eof = false; double end = lv::now() + 3; std::string t; while (!eof && lv::now() < end) c.read_some(t, 100, 1 << 20, &eof); } break;
    case 4: c.send_all(req("/x")); lv::msleep(r.range(0, 3)); c.rst_close(); return;
    case 5: c.send_all(http ? req("/big") : "BIG\n"); lv::msleep(r.range(2, 12)); c.rst_close(); return;
    case 6: { static const int MS[] = {300, 1000, 60000, 1}; c.send_all(req("/armed?ms=" + std::to_string(r.pick(MS)))); reply(); break; }
    case 7: for (int k = 0; k < 4; k++) { c.send_all(req("/k" + std::to_string(k))); reply(); } break;
    case 8: c.send_all(http ? req("/stream") : "hello /x\n"); lv::msleep(r.range(1, 10)); c.rst_close(); return;
    case 9: c.send_all(http ? "POST /cookies?a=1&b=2 HTTP/1.1\r\nHost: x\r\nCookie: k=v; k2=v2\r\nContent-Type: text/plain\r\nContent-Length: 300\r\n\r\n" + std::string(300, 'b') : "hello /cookies\n"); reply(); break;
    case 10: c.send_all(http ? (r.chance(1, 2) ? std::string("BOGUS / HTTP/1.1\r\n\r\n") : "POST /x HTTP/1.1\r\nHost: x\r\nContent-Length: 9000\r\n\r\n" + std::string(9000, 'b')) : "hel"); if (http) reply(); break;
    default: { bool eof = false; double end = lv::now() + 4.0; std::string t; while (!eof && lv::now() < end) c.read_some(t, 100, 1 << 20, &eof); } break;   // 11
    }
    c.close_now();
}
static void run_c08h(long cases) {
    lv::ip().enabled = false; lv::ip().trackOwnership = true;
    Rng r(g_opts.seed * 4513 + (uint64_t)g_opts.shard);
    const int N = (int)g_opts.num("census-n", 240), INTERVALS = 4, CONC = 12;
    for (long n = 0; n < cases; n++) {
        long idx = g_opts.shard * 100000L + n;
        int variant = (int)((n + g_opts.shard) % 4);   // 0 tcp listener, 1 http long time-outs, 2 http 1 s idle time-out (idle scan is part of the load), 3 http small request limit
        bool http = variant != 0; int workers = r.chance(1, 2) ? 1 : 3;
        std::unique_ptr<Tcp::Listener> listener; std::unique_ptr<Http::Endpoint> ep; int port;
        if (http) {
            ep.reset(new Http::Endpoint(Address(Ipv4::loopback(), Port(0))));
            auto o = Http::Endpoint::options().threads(workers).flags(Tcp::Options::ReuseAddr).headerTimeout(std::chrono::seconds(variant == 2 ? 1 : 60)).bodyTimeout(std::chrono::seconds(variant == 2 ? 1 : 60)).maxResponseSize(16u << 20);
            if (variant == 3) o.maxRequestSize(4096);
            ep->init(o); ep->setHandler(Http::make_handler<CensusHttpHandler>()); ep->serveThreaded(); port = ep->getPort();
        } else {
            listener.reset(new Tcp::Listener()); listener->init((size_t)workers, Flags<Tcp::Options>(Tcp::Options::ReuseAddr));
            listener->setHandler(std::make_shared<CensusTcpHandler>()); listener->bind(Address(Ipv4::loopback(), Port(0))); port = listener->getPort(); listener->runThreaded();
        }
        lv::msleep(30);
        { lv::Interpose& I = lv::ip(); std::lock_guard<std::mutex> g(I.m); I.owned.clear(); }
        // the interval: the same N behaviours every time (same seed), CONC at a time
        std::vector<int> plan; { Rng pr(g_opts.seed * 977 + (uint64_t)idx); for (int k = 0; k < N; k++) { int b = pr.range(0, 10); if (!http && (b == 6 || b == 9 || b == 10)) b = pr.range(0, 5); if (variant == 2 && pr.chance(1, 16)) b = 11; plan.push_back(b); } }
        std::string wtBase = Json().num("i", idx).str("phase", "c08h").str("server", http ? "http-endpoint" : "tcp-listener").num("variant", variant).num("workers", workers).num("connections_per_interval", N).done();
        set_case(idx, wtBase);
        auto interval = [&](uint64_t salt) {
            std::atomic<int> next{0}; std::vector<std::thread> th;
            for (int t = 0; t < CONC; t++) th.emplace_back([&, t] { Rng cr(salt * 131 + (uint64_t)t); for (;;) { int k = next++; if (k >= N) break; census_client(port, plan[(size_t)k], http, cr); } });
            for (auto& t : th) t.join();
        };
        double lf = lv::load_factor();
        auto settle = [&]() -> long {   // quiescence: every accepted descriptor released, then the live-byte count unchanged over 5 consecutive readings
            wait_for([&] { lv::Interpose& I = lv::ip(); std::lock_guard<std::mutex> g(I.m); return I.owned.empty(); }, 8.0 * lf);
            long last = g_live_bytes.load(); int same = 0; double end = lv::now() + 4.0 * lf;
            while (same < 5 && lv::now() < end) { lv::msleep(20); long v = g_live_bytes.load(); if (v == last) same++; else { same = 0; last = v; } }
            return last;
        };
        interval(1); interval(2);   // warm-up: hash tables, vectors, pools and lazily built tables reach their working size
        // Window A = 4 intervals.  Kept state shows as growth of at least 4 bytes per connection served in the window (the smallest heap
        // block has 24 usable bytes; an 8-byte element of a doubling vector averages 8).  One-off growth (a rehash, a capacity step of
        // a pooled buffer) can look the same once, so a suspicious window A is followed by window B of the same length: only growth that
        // CONTINUES is a violation.
        std::vector<long> level; level.push_back(settle());
        uint64_t salt = 3;
        for (int k = 0; k < INTERVALS; k++) { interval(salt++); level.push_back(settle()); }
        long growthA = level.back() - level.front(), growthB = 0; const long conns = (long)N * INTERVALS; bool confirmed = false;
        if (growthA >= 4 * conns) {
            count("census_second_window_runs");
            long startB = level.back();
            for (int k = 0; k < INTERVALS; k++) { interval(salt++); level.push_back(settle()); }
            growthB = level.back() - startB; confirmed = growthB >= 4 * conns;
        }
        g_evals++;
        count("census_servers"); count("census_connections", (long)N * (long)(level.size() + 1));
        for (int b : plan) count(std::string("census_behaviour_") + CENSUS_BEHAVIOUR[b], (long)level.size() + 1);
        count("census_bytes_per_connection_x1000_max", 0);
        { long per = growthA * 1000 / conns; if (per > g_counts["census_bytes_per_connection_x1000_max"]) g_counts["census_bytes_per_connection_x1000_max"] = per; }
        std::string lv_; for (long v : level) lv_ += (lv_.empty() ? "" : ",") + std::to_string(v);
        if (confirmed) {
            std::string wt = Json().num("i", idx).str("phase", "c08h").str("server", http ? "http-endpoint" : "tcp-listener").num("variant", variant).num("workers", workers).num("connections_per_interval", N).str("live_bytes_at_quiescence", lv_).num("bytes_kept_per_connection", (growthA + growthB) / (2 * conns)).done();
            violation(std::string("c08:heap-grows-with-connections-served:") + (http ? "http" : "tcp"), "bytes held through operator new at quiescence keep rising with the number of connections served (" + std::to_string(N) + " per interval): " + lv_, wt);
        }
        g_distinct.add(std::string("c08h|") + std::to_string(variant) + "|" + std::to_string(workers));
        if (g_samples_left > 0) { g_samples_left--; sample(Json().num("i", idx).str("phase", "c08h").num("variant", variant).num("workers", workers).str("live_bytes_at_quiescence", lv_).done()); }
        if (http) ep->shutdown(); else listener->shutdown();
        ep.reset(); listener.reset();
        lv::msleep(20);
    }
}
