// C10: routing invokes the handler the route table prescribes.
// Random route tables over a tiny segment alphabet (so that overlap and shadowing are the norm),
// add/remove sequences, probe paths with duplicate / leading / trailing slashes, all methods; an
// independent matcher over the LIST of patterns predicts the admissible handlers (a set where
// the statement leaves a tie), the bindings and 405/404.  In-process on the real Rest::Router
// with real parsed requests.
#include "common.h"
#include <pistache/http.h>
#include <pistache/router.h>
#include <sstream>

using namespace Pistache;
using namespace vf;

static Opts g_opts;
static Distinct g_distinct;
static long g_evals = 0;
static std::map<std::string, long> g_counts;
static CpuBudget g_cpu;
static long g_samples_left = 6;
static long g_skip = -1;
static void count(const std::string& k, long n = 1) { g_counts[k] += n; }

#include "routemodel.h"
using namespace rm;
// ------------------------------------------------------------------ real side
struct Hit { int pattern; std::map<std::string, std::string> params; std::vector<std::string> splats; };
static std::vector<Hit> g_hits;
static int g_notfound_hits = 0;
static Rest::Route::Handler make_handler(const Pattern& p) {
    int id = p.id; std::vector<std::string> segs = p.segs;
    return [id, segs](const Rest::Request req, Http::ResponseWriter) {
        Hit h; h.pattern = id;
        for (auto& s : segs) if (s[0] == ':') { std::string name = s.back() == '?' ? s.substr(0, s.size() - 1) : s; if (req.hasParam(name)) h.params[name] = req.param(name).as<std::string>(); }
        for (auto& sp : req.splat()) h.splats.push_back(sp.as<std::string>());
        g_hits.push_back(h);
        return Rest::Route::Result::Ok;
    };
}
struct DummyHandler : Http::Handler { HTTP_PROTOTYPE(DummyHandler) void onRequest(const Http::Request&, Http::ResponseWriter) override {} };
static Http::Request parse_request(Http::Method m, const std::string& target) {
    std::string msg = std::string(MNAME(m)) + " " + target + " HTTP/1.1\r\nHost: x\r\n\r\n";
    Http::RequestParser parser(1 << 16);
    parser.feed(msg.data(), msg.size());
    if (parser.parse() != Http::Private::State::Done) throw std::runtime_error("request did not parse");
    return parser.request;
}

static std::string pat_text(Rng& r, const std::vector<std::string>& segs) {
    std::string t;
    for (auto& s : segs) t += (r.chance(1, 12) ? "//" : "/") + s;
    if (segs.empty()) t = "/";
    else if (r.chance(1, 8)) t += "/";
    return t;
}
static std::string table_text(const std::vector<Pattern>& table) {
    std::string s; for (auto& p : table) { s += std::string(MNAME(p.method)) + " "; for (auto& x : p.segs) s += "/" + x; if (p.segs.empty()) s += "/"; s += "  "; } return s;
}
static std::string table_shape(const std::vector<Pattern>& table) {
    // shape = multiset of pattern skeletons (F fixed, P param, O optional, S splat)
    std::vector<std::string> sk;
    for (auto& p : table) { std::string k; for (auto& x : p.segs) k += x == "*" ? 'S' : x[0] == ':' ? (x.back() == '?' ? 'O' : 'P') : 'F'; sk.push_back(k); }
    std::sort(sk.begin(), sk.end()); std::string s; for (auto& k : sk) s += k + ","; return s;
}

static void run_table(long idx) {
    Rng r(g_opts.seed * 1000081ull + (uint64_t)idx);
    set_case(idx, Json().num("i", idx).str("phase", "c10").num("seed", (long long)g_opts.seed).done());
    g_cpu.arm(60.0);   // (protective only: C10 is about which handler runs, not about time)
    std::shared_ptr<Rest::Router> router = std::make_shared<Rest::Router>();
    std::vector<Pattern> table;
    int nextId = 0;
    bool allowMidOptional = r.chance(1, 6);
    auto gen_pattern = [&]() {
        Pattern p; p.id = nextId++; p.method = METHODS[r.below(r.chance(2, 3) ? 2 : 4)];
        int len = r.range(0, 4);
        if (r.chance(1, 10)) len = 0;
        for (int i = 0; i < len; i++) {
            int k = r.range(0, 9);
            if (k <= 4) p.segs.push_back(std::string(1, "abc"[r.below(3)]));
            else if (k <= 6) p.segs.push_back(r.chance(1, 2) ? ":x" : ":y");
            else if (k == 7) p.segs.push_back("*");
            else p.segs.push_back(r.chance(1, 2) ? ":o?" : ":p?");
        }
        // optionals only at the tail unless the table is an observe-only one
        bool tailOnly = true; bool seenNonOpt = false;
        for (int i = (int)p.segs.size() - 1; i >= 0; i--) { bool opt = p.segs[i].back() == '?'; if (!opt) seenNonOpt = true; else if (seenNonOpt) tailOnly = false; }
        if (!tailOnly) { if (allowMidOptional) p.midOptional = true; else { std::vector<std::string> ns, opts; for (auto& s : p.segs) (s.back() == '?' ? opts : ns).push_back(s); p.segs = ns; p.segs.insert(p.segs.end(), opts.begin(), opts.end()); } }
        // a parameter name must not repeat inside one pattern (bindings would be ambiguous by construction)
        std::set<std::string> names; std::vector<std::string> ns;
        for (auto& s : p.segs) { if (s[0] == ':') { std::string n = s.back() == '?' ? s.substr(0, s.size() - 1) : s; if (!names.insert(n).second) continue; } ns.push_back(s); }
        p.segs = ns;
        p.text = pat_text(r, p.segs);
        return p;
    };
    auto same_route = [](const Pattern& a, const Pattern& b) { return a.method == b.method && a.segs == b.segs; };
    std::string oplog;
    auto wit = [&](const std::string& extra) { return Json().num("i", idx).num("seed", (long long)g_opts.seed).str("table", table_text(table)).str("detail", extra).str("ops", oplog).done(); };
    bool observeOnly = false;
    auto probe_batch = [&](int nprobes) {
        for (int k = 0; k < nprobes; k++) {
            std::vector<std::string> path; int len = r.range(0, 5); if (r.chance(1, 12)) len = 0;
            for (int i = 0; i < len; i++) path.push_back(std::string(1, "abcd"[r.below(4)]));
            std::string target; for (auto& s : path) target += (r.chance(1, 8) ? "//" : r.chance(1, 20) ? "///" : "/") + s;
            if (path.empty()) target = r.chance(1, 4) ? "//" : "/"; else if (r.chance(1, 5)) target += r.chance(1, 3) ? "//" : "/";
            Http::Method m = METHODS[r.below(4)];
            g_hits.clear(); g_notfound_hits = 0;
            Rest::Route::Status st; bool threw = false; std::string what;
            static DummyHandler dummy;
            try {
                Http::Request req = parse_request(m, target);
                Http::ResponseWriter w(Http::Version::Http11, nullptr, &dummy, std::weak_ptr<Tcp::Peer>());
                st = router->route(req, std::move(w));
            } catch (const std::exception& e) { threw = true; what = e.what(); st = Rest::Route::Status::NotFound; }
            g_evals++;
            auto adm = best_matches(table, m, path);
            std::string shape = adm.empty() ? "nomatch" : adm.size() > 1 ? "tie" : "unique";
            std::string pathShape = std::to_string(path.size());
            g_distinct.add(table_shape(table) + "|" + pathShape + "|" + shape + "|" + MNAME(m));
            count("probes"); count("probes_" + shape);
            if (observeOnly) { count("probes_observe_only_mid_optional"); continue; }
            std::string ctx = std::string(MNAME(m)) + " " + target;
            if (threw) { violation("c10:route-throws", ctx + ": route() threw " + what, wit(ctx)); continue; }
            if (g_hits.size() > 1) { violation("c10:two-handlers", ctx + ": " + std::to_string(g_hits.size()) + " handlers ran", wit(ctx)); continue; }
            if (!adm.empty()) {
                if (g_hits.empty()) { violation("c10:no-handler:" + shape, ctx + ": no handler ran although a route of this method matches (status " + std::to_string((int)st) + ")", wit(ctx)); continue; }
                const Hit& h = g_hits[0];
                const Admissible* chosen = nullptr; bool patternOk = false;
                for (auto& a : adm) if (a.pattern == h.pattern) { patternOk = true; if (a.m.params == h.params && a.m.splats == h.splats) chosen = &a; }
                if (!patternOk) {
                    std::string got = "?"; for (auto& p : table) if (p.id == h.pattern) { got = ""; for (auto& x : p.segs) got += "/" + x; }
                    violation("c10:wrong-handler:" + shape, ctx + ": handler of " + got + " ran, which is not the matching route of highest precedence", wit(ctx)); continue;
                }
                if (!chosen) { violation("c10:wrong-binding", ctx + ": parameters/wildcards bound to other segments than the path's", wit(ctx)); continue; }
                if (st != Rest::Route::Status::Match) violation("c10:status", ctx + ": handler ran but route() did not report Match", wit(ctx));
            } else {
                if (!g_hits.empty()) { violation("c10:spurious-handler", ctx + ": a handler ran although no route of this method matches", wit(ctx)); continue; }
                std::set<std::string> allow;
                for (auto mm : METHODS) if (mm != m && !best_matches(table, mm, path).empty()) allow.insert(MNAME(mm));
                if (!allow.empty() && st != Rest::Route::Status::NotAllowed) violation("c10:405-missing", ctx + ": other methods match but the result is not 'not allowed'", wit(ctx));
                if (allow.empty() && st != Rest::Route::Status::NotFound) violation("c10:404-missing", ctx + ": nothing matches but the result is not 'not found'", wit(ctx));
            }
        }
    };
    int nsteps = r.range(2, 12);
    for (int step = 0; step < nsteps; step++) {
        bool remove = !table.empty() && r.chance(1, 5);
        if (remove) {
            size_t k = r.below(table.size());
            Pattern p = table[k];
            std::string rt = pat_text(r, p.segs);
            oplog += std::string("remove ") + MNAME(p.method) + " " + rt + "; ";
            try { router->removeRoute(p.method, rt); }
            catch (const std::exception& e) { if (!observeOnly) violation("c10:remove-throws", std::string("removing a registered route threw: ") + e.what(), wit("remove " + p.text)); }
            table.erase(table.begin() + (long)k);
            count("removes");
        } else {
            Pattern p = gen_pattern();
            bool dup = false; for (auto& q : table) if (same_route(p, q)) dup = true;
            bool threw = false;
            oplog += std::string("add ") + MNAME(p.method) + " " + p.text + "; ";
            try { router->addRoute(p.method, p.text, make_handler(p)); } catch (const std::exception&) { threw = true; }
            if (dup) { if (!threw) violation("c10:duplicate-accepted", "registering the same route twice did not throw", wit("add " + p.text)); count("duplicate_adds"); }
            else { if (threw) { violation("c10:add-throws", "registering a new route threw", wit("add " + p.text)); } else { table.push_back(p); if (p.midOptional) observeOnly = true; } }
            count("adds");
        }
        if (table.size() > 12) break;
        probe_batch((int)g_opts.num("probes", 8));
    }
    g_cpu.disarm();
    count("tables");
    if (observeOnly) count("tables_observe_only");
    if (g_samples_left > 0 && (idx % 499) == 3) { g_samples_left--; sample(Json().str("table", table_text(table)).done()); }
}

int main(int argc, char** argv) {
    g_opts = parse_opts(argc, argv);
    install_handlers();
    g_cpu.init();
    g_skip = g_opts.num("skip", -1);
    for (long i = g_opts.shard; i < g_opts.cases * g_opts.nshards; i += g_opts.nshards) { if (i <= g_skip) continue; run_table(i); }
    g_distinct.flush();
    Json s; s.str("t", "sum").num("evaluations", g_evals);
    Json c; for (auto& kv : g_counts) c.num(kv.first, kv.second);
    s.raw("counts", c.done());
    emit(s.done());
    return 0;
}
